"""C09 -- Concurrent requests behave as if executed one at a time.

1. proof (Props/C09.v): section atomicity and serialisability in lock-acquisition order for ALL admitted schedules
   of the abstract model (Model/Conc.v); the handlers of Model/Handlers.v and the request gate instantiated
   (Model/ConcHandlers.v); the unchanged gate refuted; the repaired gate serialisable; the section shape of
   every request re-checked on the skeleton regenerated from the source (Proofs/C09Skeleton.v, tie T).
2. correspondence (tie K), evaluated inside Coq:
   a. deterministic schedules: pairs (and triples) of requests, every placement of B's critical sections
      relative to A's, replayed on the real Application with scripted hand-offs at `acquire_lock`; responses and
      final store must equal `predict` (Model/ConcHandlers.v, the REPAIRED gate) for that schedule;
   b. stress: 2-16 client threads against one Application, and 2-4 processes sharing one storage folder,
      mixed reads and writes on overlapping names, scheduling perturbed by sleeps injected at file-system
      audit events; the recorded history (invocation / response times, canonical responses, final store) must
      be linearisable against the sequential specification `handle_pre`: Wing-Gong search `lin_verdict`.
3. monitors (direct statements on the implementation): no acknowledged write is lost; the outcome of every
   scripted schedule is that of one of the serial orders (decided in Coq on the REAL outcome).
"""
import json
import os
import random
import re
import tempfile
import time

from vlib import x_c09 as xc
from vlib import x_handlers as xh
from vlib import x_hcheck

SCALE = float(os.environ.get("C09_SCALE", "1"))      # development only: shrink every count
PUT = lambda ui, p, o, inm=False, im=("CNone",): (ui, ("RPut", p, "CTNone", ("BCards" if o[1] == "CCard" else "BCal", [o]), im, inm))  # noqa


def show(ctx, term):
    """ctx.coq_show, then remove the scratch file (core.coq_eval_many compiles every .v it finds in the scratch folder)."""
    out = ctx.coq_show(xc.COQ_HEADER, term)
    d = ctx.scratch()
    for f in os.listdir(d):
        if f.startswith("show_"):
            try:
                os.remove(os.path.join(d, f))
            except OSError:
                pass
    return out


def eval_list(ctx, tag, fn, cases, enc, shard=10, timeout=900):
    """Evaluate the Coq function `fn : case -> N` on every case (sharded, in parallel); returns the list of numbers
    or None (+ a broken obligation) when a shard does not evaluate."""
    files = {}
    for k in range(0, len(cases), shard):
        rows = ";\n".join(enc(c) for c in cases[k:k + shard])
        files["%s_%d" % (tag, k // shard)] = (xc.COQ_HEADER + "\nDefinition cases_ := [\n%s\n].\n"
                                              "Eval vm_compute in (map %s cases_).\n" % (rows, fn))
    res = ctx.coq_eval_many(files, timeout=timeout)
    out = []
    for k in range(0, len(cases), shard):
        rc, txt = res["%s_%d" % (tag, k // shard)]
        m = re.search(r"=\s*\[(.*?)\]\s*:\s*list N", txt, re.S)
        n = len(cases[k:k + shard])
        if rc != 0 or not m or len(re.findall(r"\d+", m.group(1))) != n:
            ctx.obligation("correspondence:%s:model-evaluates" % tag, False, txt[-1200:])
            return None
        out += [int(x) for x in re.findall(r"\d+", m.group(1))]
    return out


# ------------------------------------------------------------------------------- corpus of schedules (always run)
def corpus(rng):
    """(name, world, pre, setup, reqs): regression pairs, each run under every placement."""
    w = xc.owner_world(rng)
    wo = xc.owner_world(rng, open_reads=True)
    wd = xc.owner_world(rng, deep=True)
    cal1 = xc.PREDEF_VARIANTS[1]
    ev = (0, "CEvent", 0)
    homes = [(1, ("RPropfind", (10,), False)), (2, ("RPropfind", (11,), False))]
    cal = homes + [(1, ("RMkcalendar", (10, 20), ("XNone",)))]
    return [
        # DESIGN F8: two first requests of one user, predefined collections configured
        ("f8-put-propfind", w, cal1, [], [PUT(1, (10, 20, 100), ev), (1, ("RPropfind", (10,), True))]),
        ("f8-put-get", w, cal1, [], [PUT(1, (10, 20, 100), ev), (1, ("RGet", (10, 20)))]),
        ("f8-put-put", w, cal1, [], [PUT(1, (10, 20, 100), ev), PUT(1, (10, 20, 101), (1, "CEvent", 1))]),
        ("f8-two-predefined", w, xc.PREDEF_VARIANTS[2], [], [PUT(1, (10, 21, 200), (0, "CCard", 0)), (1, ("RPropfind", (10, 20), True))]),
        ("first-login-no-predefined", w, [], [], [(1, ("RMkcalendar", (10, 20), ("XNone",))), (1, ("RPropfind", (10,), True))]),
        # gate and handler are separate transactions (known finding)
        ("home-deleted-under-mkcalendar", w, [], homes, [(1, ("RDelete", (10,), ("CNone",))), (1, ("RMkcalendar", (10, 21), ("XNone",)))]),
        ("first-login-seen-by-other-user", wo, [], [(2, ("RPropfind", (11,), False))],
         [(1, ("RMkcalendar", (10, 20), ("XNone",))), (2, ("RPropfind", (10,), True))]),
        # two writers of one name: exactly one may create it
        ("create-create", w, [], cal, [PUT(1, (10, 20, 100), ev, inm=True), PUT(1, (10, 20, 100), (0, "CEvent", 1), inm=True)]),
        ("mkcal-mkcal", w, [], homes, [(1, ("RMkcalendar", (10, 20), ("XNone",))), (1, ("RMkcalendar", (10, 20), ("XProps", ("TRNone",), [(1, 1)])))]),
        ("proppatch-proppatch", w, [], cal, [(1, ("RProppatch", (10, 20), ("XProps", ("TRNone",), [(1, 1)]))),
                                             (1, ("RProppatch", (10, 20), ("XProps", ("TRNone",), [(2, 2)])))]),
        ("uid-conflict", w, [], cal, [PUT(1, (10, 20, 100), ev), PUT(1, (10, 20, 101), (0, "CEvent", 1))]),
        # a reader against a whole-collection replacement / a delete
        ("replace-vs-listing", w, [], cal + [PUT(1, (10, 20, 100), ev), PUT(1, (10, 20, 101), (1, "CEvent", 0))],
         [(1, ("RPut", (10, 20), "CTCal", ("BCal", [(2, "CTodo", 1)]), ("CNone",), False)), (1, ("RPropfind", (10, 20), True))]),
        ("delete-vs-export", w, [], cal + [PUT(1, (10, 20, 100), ev)], [(1, ("RDelete", (10, 20), ("CNone",))), (1, ("RGet", (10, 20)))]),
        ("move-vs-multiget", w, [], cal + [PUT(1, (10, 20, 100), ev)],
         [(1, ("RMove", (10, 20, 100), True, (10, 20, 102), False)), (1, ("RMultiget", (10, 20), True, [(10, 20, 100), (10, 20, 102)]))]),
        ("if-match-vs-overwrite", w, [], cal + [PUT(1, (10, 20, 100), ev)],
         [PUT(1, (10, 20, 100), (0, "CEvent", 1)), (1, ("RDelete", (10, 20, 100), ("CTag", ("EtItem", ev))))]),
        ("two-users", w, cal1, [], [PUT(1, (10, 20, 100), ev), PUT(2, (11, 20, 100), ev)]),
        ("anonymous", w, [], cal, [(0, ("RPropfind", (10, 20), True)), PUT(1, (10, 20, 100), ev)]),
        # check-then-act shapes: a handler that tests under one lock and acts under another would show here
        ("mkcol-vs-whole-put", wd, [], homes + [(1, ("RMkcol", (10, 20), ("XNone",)))], [(1, ("RMkcol", (10, 20, 21), ("XNone",))),
                                              (1, ("RPut", (10, 20), "CTCal", ("BCal", [ev]), ("CNone",), False))]),
        ("mkcalendar-vs-whole-put", wd, [], homes + [(1, ("RMkcol", (10, 20), ("XNone",)))], [(1, ("RMkcalendar", (10, 20, 21), ("XNone",))),
                                                   (1, ("RPut", (10, 20), "CTCal", ("BCal", [ev]), ("CNone",), False))]),
        ("mkcol-vs-delete-parent", wd, [], homes + [(1, ("RMkcol", (10, 22), ("XNone",)))],
         [(1, ("RMkcol", (10, 22, 20), ("XNone",))), (1, ("RDelete", (10, 22), ("CNone",)))]),
        ("delete-if-match-vs-put", w, [], cal + [PUT(1, (10, 20, 100), ev)],
         [(1, ("RDelete", (10, 20, 100), ("CTag", ("EtItem", ev)))), PUT(1, (10, 20, 100), (0, "CEvent", 1))]),
        ("put-if-match-vs-put", w, [], cal + [PUT(1, (10, 20, 100), ev)],
         [PUT(1, (10, 20, 100), (0, "CTodo", 1), im=("CTag", ("EtItem", ev))), PUT(1, (10, 20, 100), (0, "CEvent", 1))]),
        ("move-vs-delete-target-collection", w, [], cal + [(1, ("RMkcalendar", (10, 22), ("XNone",))), PUT(1, (10, 20, 100), ev)],
         [(1, ("RMove", (10, 20, 100), True, (10, 22, 100), False)), (1, ("RDelete", (10, 22), ("CNone",)))]),
        ("proppatch-vs-delete", w, [], cal, [(1, ("RProppatch", (10, 20), ("XProps", ("TRNone",), [(1, 1)]))), (1, ("RDelete", (10, 20), ("CNone",)))]),
    ]


PLACEMENTS = xc.merges([0, 0, 0], [1, 1, 1])          # the 20 placements of B's (<= 3) sections relative to A's (<= 3)
PLACEMENTS4 = xc.merges([0, 0, 0, 0], [1, 1, 1, 1])   # 70 placements for requests with a fourth section (sampled)


def gen_pair(rng):
    world = xc.owner_world(rng, open_reads=rng.random() < 0.35)
    pre = rng.choice([xc.PREDEF_VARIANTS[0]] * 2 + [xc.PREDEF_VARIANTS[1]] * 2 + [xc.PREDEF_VARIANTS[2]])
    level = rng.choice([0, 0, 1, 2, 2])
    setup = xc.gen_setup(rng, level)
    ui = rng.choice([1, 1, 2])
    a = xc.gen_request(rng, ui, allow_home_delete=rng.random() < 0.2, reads=0.2)
    b = xc.gen_request(rng, ui if rng.random() < 0.7 else None, allow_home_delete=False, reads=0.45)
    return world, pre, setup, [a, b]


# ------------------------------------------------------------------------------- monitor: acknowledged writes
def destroys(other, p):
    """May the request `other` legitimately remove or replace the item at path p?"""
    k = other[0]
    if k in ("RGet", "RPropfind", "RMultiget", "RProppatch"):
        return False
    tgt = tuple(other[1])
    if k in ("RMkcol", "RMkcalendar"):
        return False
    if k == "RDelete":
        return p[:len(tgt)] == tgt
    if k == "RMove":
        return tuple(other[1]) == p or tuple(other[3]) == p
    if k == "RPut":
        return p[:len(tgt)] == tgt            # the same name, or a whole collection above it
    return True


def lost_writes(reqs, resps, store):
    """Items whose PUT was answered 201 and that no other request of the batch could have touched, yet are not stored."""
    items = {p + (n,): o for p, _, _, its in store for n, o in its}
    out = []
    for i, ((ui, r), c) in enumerate(zip(reqs, resps)):
        if c is None or r[0] != "RPut" or c[0] != "S201" or c[1][0] != "CPEtagItem":
            continue
        p = tuple(r[1])
        if any(destroys(o[1], p) for j, o in enumerate(reqs) if j != i):
            continue
        if items.get(p) != c[1][1]:
            out.append(dict(request=i, path=list(p), acknowledged=repr(c), stored=repr(items.get(p))))
    return out


def illformed(store):
    """A typed collection (calendar / address book) holding a collection, or an untyped one holding items: a state
    no one-at-a-time execution can produce (C15's invariant; under concurrency it is a mixed state)."""
    tags = {tuple(p): t for p, t, _, _ in store}
    for p, t, _, items in store:
        p = tuple(p)
        if t == "TNone" and items:
            return "untyped collection %r holds items" % (p,)
        if len(p) and p[:-1] not in tags:
            return "collection %r has no parent collection" % (p,)
        if len(p) and tags.get(p[:-1], "TNone") != "TNone":
            return "collection %r lies inside the %s collection %r" % (p, tags[p[:-1]], p[:-1])
    return None


# ------------------------------------------------------------------------------- part A: deterministic schedules
def run_schedule_cases(ctx, et, cases, tag):
    """cases: (name, world, pre, setup, reqs, turns, storage_type).  Runs the implementation, compares with the model
    inside Coq, applies the monitors.  Returns the number of violations raised."""
    runs = []
    for name, world, pre, setup, reqs, turns, stype in cases:
        r = xc.run_scripted(world, pre, setup, reqs, turns, et, stype)
        runs.append(r)
        sig = tuple(r["log"])
        ctx.case((tag, name, repr(reqs), repr(setup), repr(pre), sig), nontrivial=len({i for i, _ in r["log"]}) > 1)
        ctx.count("sched:sections:%d" % sum(1 for _, e in r["log"] if e.startswith("acquire")))
        for c in r["resps"]:
            ctx.count("sched:status:" + (c[0] if c else "died"))
        for _, q in reqs:
            ctx.count("sched:req:" + q[0])
    dead = [(c, r) for c, r in zip(cases, runs) if any(e for e in r["errors"]) or any(x is None for x in r["resps"])]
    ctx.obligation("scripted-scheduler-ran:%s" % tag, not dead, "" if not dead else repr((dead[0][0][0], dead[0][1]["errors"]))[:600])
    pairs = [((w, pre, setup, reqs, turns), (r["store"], r["setup"], r["resps"])) for (n, w, pre, setup, reqs, turns, st), r in zip(cases, runs)]
    if runs and len(ctx.samples) < 3:
        n, w, pre, setup, reqs, turns, st = cases[0]
        ctx.samples.append(dict(schedule=n, requests=[repr(q) for q in reqs], turns=turns, lock_log=[list(e) for e in runs[0]["log"]],
                                responses=[repr(c) for c in runs[0]["resps"]]))
    # one pass: model prediction equal AND outcome serialisable; the (few) failing cases are then told apart
    either = ctx.diff_cases(tag + "_both", xc.COQ_HEADER, "(fun c => c)", pairs, xc.enc_sched_case, xc.enc_sched_out, "both_ok", shard=40)
    if either is None:
        return
    bad, nonser = [], []
    if either:
        sub = [pairs[i] for i in either]
        b1 = ctx.diff_cases(tag + "_pred", xc.COQ_HEADER, "run_sched", sub, xc.enc_sched_case, xc.enc_sched_out, "pred_eqb", shard=40)
        b2 = ctx.diff_cases(tag + "_ser", xc.COQ_HEADER, "(fun c => c)", sub, xc.enc_sched_case, xc.enc_sched_out, "ser_case", shard=40)
        if b1 is None or b2 is None:
            return
        bad = [either[k] for k in b1]
        nonser = [either[k] for k in b2]
    ctx.obligation("correspondence:%s-schedules" % tag, not bad,
                   "" if not bad else "the implementation differs from the model of the repaired gate on %d of %d schedules, first: %s %r" % (
                       len(bad), len(cases), cases[bad[0]][0], cases[bad[0]][5]))
    ctx.extra.setdefault("schedules", {})[tag] = dict(run=len(cases), differ_from_model=len(bad), not_serialisable=len(nonser))
    matches_unfixed = set()
    if bad:
        sub = [pairs[i] for i in bad[:200]]
        b2 = ctx.diff_cases(tag + "_unfx", xc.COQ_HEADER, "run_sched_unfixed", sub, xc.enc_sched_case, xc.enc_sched_out, "pred_eqb", shard=40)
        if b2 is not None:
            matches_unfixed = {bad[k] for k in range(len(sub)) if k not in set(b2)}
            ctx.extra["schedules"][tag]["match_model_of_gate_without_recheck"] = len(matches_unfixed)
    reported = set()
    for i, ((name, world, pre, setup, reqs, turns, stype), r) in enumerate(zip(cases, runs)):
        rp = dict(kind="schedule", name=name, world=x_hcheck.world_json(world), predefined=pre, setup=setup, requests=reqs, turns=turns,
                  storage_type=stype, lock_log=r["log"], responses=[repr(c) for c in r["resps"]], store=repr(r["store"]))
        ill = illformed(r["store"])
        if ill and "ill" not in reported:
            reported.add("ill")
            ctx.violation("ill-formed store after two concurrent requests: %s (schedule %s, turns %r)" % (ill, name, turns), rp, signature=None)
        lost = lost_writes(reqs, r["resps"], r["store"])
        if lost and "lost" not in reported:
            reported.add("lost")
            ctx.violation("an acknowledged write is lost: %s answered %s, stored at the end: %s (schedule %s, turns %r%s)" % (
                reqs[lost[0]["request"]][1][:2], lost[0]["acknowledged"], lost[0]["stored"], name, turns,
                "; the outcome is the one of the model WITHOUT re-check in the gate's w section" if i in matches_unfixed else ""),
                dict(rp, lost=lost), signature="acknowledged-write-lost-by-home-recreation" if i in matches_unfixed else None)
        if i in nonser and not lost:
            if i in bad:
                if "nonser" not in reported:
                    reported.add("nonser")
                    ctx.violation("outcome of schedule %s %r is that of no one-at-a-time execution and differs from the model" % (name, turns),
                                  rp, signature=None)
            else:
                # exactly what the model of the repaired gate predicts: the gate's sections and the handler's section
                # are separate transactions (C09_request_level_refuted)
                ctx.count("sched:known-split")
                ctx.violation("request not atomic: home check / provisioning and handler are separate critical sections "
                              "(schedule %s %r: %s)" % (name, turns, [repr(c) for c in r["resps"]]), rp, signature=xc.KNOWN_SPLIT)
        elif i in bad and not lost and "diff" not in reported and i not in nonser:
            reported.add("diff")
            model = show(ctx, "run_sched %s" % xc.enc_sched_case(pairs[i][0]))
            ctx.extra["schedule_disagreement"] = dict(rp, model=model[-1200:])


def part_schedules(ctx, et):
    rng = ctx.rng
    cases = []
    for name, world, pre, setup, reqs in corpus(rng):
        for k, turns in enumerate((PLACEMENTS + rng.sample(PLACEMENTS4, 4)) if SCALE >= 1 else PLACEMENTS[::int(1 / SCALE)]):
            cases.append((name, world, pre, setup, reqs, turns, "multifilesystem" if k % 2 == 0 else "multifilesystem_nolock"))
    ctx.count("schedules:corpus", len(cases))
    run_schedule_cases(ctx, et, cases, "corpus")
    gen = []
    for n in range(int(ctx.n(38, 700) * SCALE)):
        world, pre, setup, reqs = gen_pair(rng)
        places = PLACEMENTS if n % 5 == 0 else rng.sample(PLACEMENTS, 8)
        for turns in places:
            gen.append(("gen%d" % n, world, pre, setup, reqs, turns, rng.choice(["multifilesystem", "multifilesystem_nolock"])))
    # three requests, sampled placements
    for n in range(int(ctx.n(15, 300) * SCALE)):
        world, pre, setup, reqs = gen_pair(rng)
        reqs = reqs + [xc.gen_request(rng, None, False, reads=0.4)]
        for _ in range(4):
            turns = [0, 0, 0, 0, 1, 1, 1, 1, 2, 2, 2, 2]
            rng.shuffle(turns)
            gen.append(("tri%d" % n, world, pre, setup, reqs, turns, "multifilesystem"))
    ctx.count("schedules:generated", len(gen))
    run_schedule_cases(ctx, et, gen, "gen")


# ------------------------------------------------------------------------------- part B: stress
THREAD_SHAPES = [(2, 3), (2, 4), (3, 3), (4, 2), (3, 2), (5, 2), (6, 1), (8, 1), (10, 1), (12, 1), (16, 1)]


def gen_stress(rng, procs=False):
    world = xc.owner_world(rng, open_reads=rng.random() < 0.3)
    pre = rng.choice([xc.PREDEF_VARIANTS[0]] * 3 + [xc.PREDEF_VARIANTS[1]] * 2 + [xc.PREDEF_VARIANTS[2]])
    setup = xc.gen_setup(rng, rng.choice([0, 1, 2, 2, 2]))
    nthreads, per = rng.choice(THREAD_SHAPES[:6] if procs else THREAD_SHAPES)
    reads = 0.3 if nthreads * per <= 10 else 0.6
    hd = rng.random() < 0.12 and nthreads * per <= 8      # a home DELETE disables the reads-first reduction: small histories only
    threads = [[xc.gen_request(rng, None, allow_home_delete=hd, reads=reads) for _ in range(per)] for _ in range(nthreads)]
    return world, pre, setup, threads


def overlap_pairs(ops):
    n = 0
    for i, a in enumerate(ops):
        for b in ops[i + 1:]:
            if a[2] < b[3] and b[2] < a[3]:
                n += 1
    return n


def judge_histories(ctx, tag, hists):
    """hists: (descr, world, pre, setup, result-dict).  Linearisability decided in Coq."""
    cases = [(w, pre, setup, r["ops"], r["store"]) for d, w, pre, setup, r in hists]
    vs = eval_list(ctx, tag + "_lin", "lin_case", cases, xc.enc_hist_case, shard=10)
    if vs is None:
        return
    verdicts = {i: v for i, v in enumerate(vs) if v != 0}
    bad = sorted(verdicts)
    inconclusive = [i for i, v in verdicts.items() if v == 3]
    hard = [i for i, v in verdicts.items() if v == 2]
    split = [i for i, v in verdicts.items() if v == 1]
    ctx.extra.setdefault("stress", {})[tag] = dict(histories=len(hists), linearisable=len(hists) - len(bad), only_at_section_level=len(split),
                                                   not_linearisable=len(hard), search_gave_up=len(inconclusive))
    ctx.obligation("correspondence:%s-linearisable" % tag, not hard,
                   "" if not hard else "%d of %d recorded histories have no linearisation against handle_pre" % (len(hard), len(hists)))
    for i in split[:1]:
        d, w, pre, setup, r = hists[i]
        ctx.count("stress:known-split", len(split))
        ctx.violation("history linearisable only when the gate's provisioning and the handler count as separate transactions",
                      history_replay(d, w, pre, setup, r), signature=xc.KNOWN_SPLIT)
    for i in hard[:1]:
        d, w, pre, setup, r = hists[i]
        lost = lost_writes([(o[0], o[1]) for o in r["ops"]], [o[4] for o in r["ops"]], r["store"])
        ill = illformed(r["store"])
        ctx.violation("concurrent history with no one-at-a-time explanation (%s)%s%s" % (
            d, "; an acknowledged write is lost: %r" % lost[0] if lost else "", "; " + ill if ill else ""),
            history_replay(d, w, pre, setup, r, lost=lost, illformed=ill), signature=None)


def history_replay(d, w, pre, setup, r, **kw):
    t0 = min([o[2] for o in r["ops"]] or [0])
    return dict(kind="history", descr=d, world=x_hcheck.world_json(w), predefined=pre, setup=setup,
                operations=[dict(user=o[0], request=o[1], invoked_us=(o[2] - t0) // 1000, returned_us=(o[3] - t0) // 1000, response=repr(o[4]))
                            for o in sorted(r["ops"], key=lambda o: o[2])],
                store=repr(r["store"]), layout=r.get("layout"),
                note="timing dependent: ./check C09 --replay re-runs the same requests with the same thread / process layout 30 times "
                "and reports how often the recorded history is not linearisable", **kw)


def part_stress(ctx, et):
    rng = ctx.rng
    hists = []
    t_end = time.time() + ctx.n(25, 420) * max(1.0, SCALE)
    n = 0
    target = int(ctx.n(120, 3000) * SCALE)
    while n < target and time.time() < t_end:
        world, pre, setup, threads = gen_stress(rng)
        stype = "multifilesystem" if n % 2 == 0 else "multifilesystem_nolock"
        seed = rng.randrange(10**6)
        r = xc.run_stress_threads(world, pre, setup, threads, et, seed, stype, perturb=rng.choice([(0.1, 800), (0.25, 1500), (0.05, 3000)]))
        d = "threads=%d x %d, %s, seed=%d" % (len(threads), len(threads[0]), stype, seed)
        r["layout"] = dict(kind="threads", threads=threads, storage_type=stype, seed=seed)
        hists.append((d, world, pre, setup, r))
        ov = overlap_pairs(r["ops"])
        ctx.case(("stress", d, repr(threads)), nontrivial=ov > 0)
        ctx.count("stress:threads:%d" % len(threads))
        ctx.count("stress:overlapping-pairs", ov)
        for o in r["ops"]:
            ctx.count("stress:req:" + o[1][0])
            ctx.count("stress:status:" + o[4][0])
        n += 1
    ctx.count("stress:histories", n)
    judge_histories(ctx, "threads", hists)


def part_procs(ctx, et):
    rng = ctx.rng
    hists = []
    for n in range(int(ctx.n(10, 150) * SCALE) or 1):
        world, pre, setup, threads = gen_stress(rng, procs=True)
        nproc = rng.choice([2, 2, 3, 4])
        layout = [[] for _ in range(nproc)]
        for k, t in enumerate(threads):
            layout[k % nproc].append(t)
        layout = [l for l in layout if l]
        seed = rng.randrange(10**6)
        cache_mode = ["none", "distinct", "shared"][n % 3]
        r = xc.run_stress_procs(world, pre, setup, layout, et, seed, cache_mode=cache_mode)
        d = "processes=%d, threads=%r, cache folders: %s, seed=%d" % (len(layout), [len(l) for l in layout], cache_mode, seed)
        if r["errors"]:
            ctx.obligation("multi-process-driver-ran", False, repr(r["errors"])[:500])
            continue
        r["layout"] = dict(kind="processes", processes=layout, seed=seed, cache_mode=cache_mode)
        hists.append((d, world, pre, setup, r))
        ov = overlap_pairs(r["ops"])
        ctx.case(("procs", d, repr(layout)), nontrivial=ov > 0)
        ctx.count("procs:processes:%d" % len(layout))
        ctx.count("procs:overlapping-pairs", ov)
    ctx.count("procs:histories", len(hists))
    judge_histories(ctx, "processes", hists)



# ------------------------------------------------------------------------------- part D: several instances, one folder
def part_instances(ctx, et):
    """Two Applications over one storage folder (= two server processes / workers), for the [storage] configurations
    none / one shared cache folder / one cache folder per instance, with instance 2 constructed before or WHILE
    instance 1 has a request inside its exclusive section.  Monitors: instance 2 enters no critical section while
    instance 1 holds the exclusive lock; the outcome is that of a serial order (decided in Coq)."""
    rng = ctx.rng
    w = xc.owner_world(rng)
    ev = (0, "CEvent", 0)
    cal = [(1, ("RPropfind", (10,), False)), (1, ("RMkcalendar", (10, 20), ("XNone",)))]
    pairs = [("create-create", cal, PUT(1, (10, 20, 100), ev, inm=True), PUT(1, (10, 20, 100), (0, "CEvent", 1), inm=True), "enter"),
             ("proppatch-proppatch", cal, (1, ("RProppatch", (10, 20), ("XProps", ("TRNone",), [(1, 1)]))),
              (1, ("RProppatch", (10, 20), ("XProps", ("TRNone",), [(2, 2)]))), "rename"),
             ("put-put-if-match", cal + [PUT(1, (10, 20, 100), ev)], PUT(1, (10, 20, 100), (0, "CEvent", 1), im=("CTag", ("EtItem", ev))),
              PUT(1, (10, 20, 100), (0, "CTodo", 1), im=("CTag", ("EtItem", ev))), "rename")]
    for _ in range(ctx.n(0, 25)):
        a = xc.gen_request(rng, 1, False, reads=0.0)
        b = xc.gen_request(rng, 1, False, reads=0.2)
        pairs.append(("gen", xc.gen_setup(rng, 2), a, b, rng.choice(["enter", "rename"])))
    import errno
    FAULTS = [errno.ENOLCK, errno.ENOTSUP, errno.ENOSYS, errno.EIO, errno.EBADF, errno.EINVAL, errno.ENOMEM]
    runs, cases = [], []
    reported = False
    plan = []
    for name, setup, a, b, park in pairs:
        for cache_mode in ("none", "shared", "distinct"):
            for late in (False, True):
                if name == "gen" and rng.random() < 0.5:
                    continue
                plan.append((name, setup, a, b, park, cache_mode, late, None))
    # fault injection at flock(): the second instance's request cannot get the lock -> it must fail, not run unlocked
    for k, e in enumerate(FAULTS):
        name, setup, a, b, park = pairs[k % 3]
        plan.append((name + "+flock-fails", setup, a, b, park, "none", bool(k % 2), e))
    for name, setup, a, b, park, cache_mode, late, fault in plan:
                r = xc.run_two_instances(w, [], setup, a, b, et, cache_mode, late, park=park, flock_errno=fault)
                if fault is not None:
                    ctx.count("instances:flock-fault:%s" % errno.errorcode.get(fault, fault))
                ctx.case(("instances", name, repr(a), repr(b), cache_mode, late, park), nontrivial=bool(r["parked"]))
                ctx.count("instances:%s:%s" % (cache_mode, "late" if late else "early"))
                ctx.count("instances:parked" if r["parked"] else "instances:not-parked")
                rp = dict(kind="instances", name=name, world=x_hcheck.world_json(w), setup=setup, a=a, b=b, cache_mode=cache_mode,
                          second_instance_constructed_while_request_in_flight=late, park=park, events=r["events"],
                          flock_errno_injected_for_instance_2=fault,
                          responses=[repr(c) for c in r["resps"]], store=repr(r["store"]))
                # (a request whose flock() was made to fail may, and must, be answered at once -- with an error)
                if (r["entered_while_held"] or (r["b_done_while_held"] and fault is None)) and not reported:
                    reported = True
                    ctx.violation("two server instances on one storage folder do not exclude each other (filesystem_cache_folder: %s; second "
                                  "instance constructed %s): instance 2 %s while instance 1 was inside its exclusive critical section" % (
                                      cache_mode if fault is None else "%s, flock() of instance 2 failing with %s" % (
                                          cache_mode, errno.errorcode.get(fault, fault)),
                                      "while the request was in flight" if late else "before",
                                      "entered %r" % (r["entered_while_held"][:2],) if r["entered_while_held"] else "answered"), rp, signature=None)
                if any(r["errors"]) or any(c is None for c in r["resps"]):
                    ctx.obligation("two-instance-scenario-ran", False, repr((name, cache_mode, late, r["errors"]))[:500])
                    continue
                if fault is not None:
                    # the faulted request must have failed; what remains must be request A alone
                    if r["resps"][1][0] != "S500" and not reported:
                        reported = True
                        ctx.violation("flock() failed with %s for the request of instance 2, yet it was answered %s instead of failing "
                                      "(instance 1 was inside its exclusive section)" % (errno.errorcode.get(fault, fault), r["resps"][1][0]),
                                      rp, signature=None)
                    runs.append((rp, r))
                    cases.append(((w, [], setup, [a], []), (r["store"], r["setup"], r["resps"][:1])))
                    continue
                runs.append((rp, r))
                cases.append(((w, [], setup, [a, b], []), (r["store"], r["setup"], r["resps"])))
    ctx.obligation("two-instance-scenario-parked", any(r["parked"] for _, r in runs), "no run had request A inside its exclusive section")
    nonser = ctx.diff_cases("inst_ser", xc.COQ_HEADER, "(fun c => c)", cases, xc.enc_sched_case, xc.enc_sched_out, "ser_case", shard=40)
    if nonser is None:
        return
    ctx.extra["instances"] = dict(run=len(runs), not_serialisable=len(nonser))
    ctx.obligation("correspondence:instances-serialisable", not nonser,
                   "" if not nonser else "%d of %d two-instance outcomes are those of no serial order" % (len(nonser), len(runs)))
    for i in nonser[:1]:
        rp, r = runs[i]
        ctx.violation("two server instances on one folder: outcome of no one-at-a-time execution (%s, cache folders: %s): %s; store %s" % (
            rp["name"], rp["cache_mode"], rp["responses"], rp["store"][:300]), rp, signature=None)


# ------------------------------------------------------------------------------- part E: concurrent readers
READER_PLANS = [[("u", 0), ("u", 0)], [("u", 0), ("u", 0), ("v", 1), ("v", 2)], [("u", 1), ("u", 1), ("v", 3), ("u", 2)],
                [("u", 4), ("v", 4), ("u", 2), ("v", 2)], [("u", 0), ("v", 0), ("u", 0), ("v", 0), ("u", 1), ("v", 1)]]


def part_readers(ctx):
    """Readers are not side-effect free (cache, sync-token files under the SHARED lock) and share the Application
    object: several identical / different read-only requests at once, on a store state whose caches are cold, must
    each get exactly the answer the same request gets alone."""
    rng = ctx.rng
    reported = False
    total = 0
    for k, plan in enumerate(READER_PLANS):
        for stype in ("multifilesystem", "multifilesystem_nolock"):
            rounds = ctx.n(3, 25)
            bad = xc.run_concurrent_readers(rng.randrange(2, 6), plan, stype, rounds=rounds, seed=rng.randrange(10**6))
            total += rounds * len(plan)
            ctx.case(("readers", repr(plan), stype), nontrivial=True)
            ctx.count("readers:requests", rounds * len(plan))
            ctx.count("readers:answers-differ", len(bad))
            if bad and not reported:
                reported = True
                b = bad[0]
                ctx.violation("a read-only request answered differently when issued concurrently with other readers than alone "
                              "(%s %s: concurrently %s, alone %s)" % (b["request"][0], b["request"][1], b["concurrent_status"], b["alone_status"]),
                              dict(kind="readers", plan=plan, storage_type=stype, rounds=rounds, first=b, differing=len(bad)), signature=None)
    # one item, its cache entry cold or stale, two readers at once, reader 2 looks while reader 1 writes the entry
    cold = 0
    for stype in ("multifilesystem", "multifilesystem_nolock"):
        for variant in ("cold", "stale"):
            for kind in ("get", "query", "multiget"):
                rounds = ctx.n(2, 10)
                bad = xc.run_cold_item_readers(stype, variant, kind, rounds=rounds)
                cold += 2 * rounds
                ctx.case(("cold-readers", stype, variant, kind), nontrivial=True)
                ctx.count("readers:cold-item-requests", 2 * rounds)
                ctx.count("readers:answers-differ", len(bad))
                if bad and not reported:
                    reported = True
                    b = bad[0]
                    ctx.violation("two readers of one item whose cache entry is %s: reader %d is answered %s where the same request alone is "
                                  "answered %s (reader 1 was writing the cache entry: %s)" % (
                                      variant, b["reader"], b["concurrent_status"], b["alone_status"], b["reader1_was_writing_the_entry"]),
                                  dict(kind="cold-readers", storage_type=stype, variant=variant, request=kind, rounds=rounds, first=b), signature=None)
    ctx.extra["readers"] = dict(requests=total, cold_item_requests=cold)


# ------------------------------------------------------------------------------- part F: the real serve(), two listening sockets
def part_served(ctx, et):
    """radicale.server.serve() itself with hosts = 127.0.0.1:p1, 127.0.0.1:p2: request A on socket 1 is parked at its first
    rename into the collection data (old state read, exclusive lock held), request B arrives on socket 2.  B must not
    complete meanwhile, and the outcome must be that of a serial order (decided in Coq)."""
    rng = ctx.rng
    w = xc.owner_world(rng)
    ev = (0, "CEvent", 0)
    cal = [(1, ("RPropfind", (10,), False)), (1, ("RMkcalendar", (10, 20), ("XNone",)))]
    pairs = [("proppatch-proppatch", cal, (1, ("RProppatch", (10, 20), ("XProps", ("TRNone",), [(1, 1)]))),
              (1, ("RProppatch", (10, 20), ("XProps", ("TRNone",), [(2, 2)])))),
             ("put-put-if-match", cal + [PUT(1, (10, 20, 100), ev)], PUT(1, (10, 20, 100), (0, "CEvent", 1), im=("CTag", ("EtItem", ev))),
              PUT(1, (10, 20, 100), (0, "CTodo", 1), im=("CTag", ("EtItem", ev)))),
             ("create-create", cal, PUT(1, (10, 20, 100), ev, inm=True), PUT(1, (10, 20, 100), (0, "CEvent", 1), inm=True))]
    for _ in range(ctx.n(0, 20)):
        pairs.append(("gen", xc.gen_setup(rng, 2), xc.gen_request(rng, 1, False, reads=0.0), xc.gen_request(rng, 1, False, reads=0.2)))
    runs, cases = [], []
    reported = False
    for name, setup, a, b in pairs:
        for stype in ("multifilesystem_nolock", "multifilesystem"):
            r = xc.run_served_pair(w, [], setup, a, b, et, stype)
            ctx.case(("served", name, repr(a), repr(b), stype), nontrivial=bool(r["parked"]))
            ctx.count("served:%s" % stype)
            rp = dict(kind="served", name=name, world=x_hcheck.world_json(w), setup=setup, a=a, b=b, storage_type=stype,
                      hosts="127.0.0.1:%d,127.0.0.1:%d" % tuple(r["ports"]), responses=[repr(c) for c in r["resps"]], store=repr(r["store"]))
            if r["errors"] or any(c is None for c in r["resps"]):
                ctx.obligation("served-scenario-ran", False, repr((name, stype, r["errors"]))[:500])
                continue
            if r["b_done_while_a_parked"] and not reported:
                reported = True
                ctx.violation("serve() with two listening sockets (%s): request B on the second socket completed while request A on the first "
                              "socket was inside its exclusive critical section (%s: %s, store %s)" % (
                                  stype, name, rp["responses"], rp["store"][:200]), rp, signature=None)
            runs.append((rp, r))
            cases.append(((w, [], setup, [a, b], []), (r["store"], r["setup"], r["resps"])))
    ctx.obligation("served-scenario-parked", any(r["parked"] for _, r in runs), "no run had request A parked inside its exclusive section")
    nonser = ctx.diff_cases("served_ser", xc.COQ_HEADER, "(fun c => c)", cases, xc.enc_sched_case, xc.enc_sched_out, "ser_case", shard=40)
    if nonser is None:
        return
    ctx.extra["served"] = dict(run=len(runs), not_serialisable=len(nonser))
    ctx.obligation("correspondence:served-serialisable", not nonser,
                   "" if not nonser else "%d of %d outcomes through serve() with two sockets are those of no serial order" % (len(nonser), len(runs)))
    for i in nonser[:1]:
        rp, r = runs[i]
        ctx.violation("serve() with two listening sockets (%s): outcome of no one-at-a-time execution -- an acknowledged update is lost "
                      "(%s: %s; store %s)" % (rp["storage_type"], rp["name"], rp["responses"], rp["store"][:300]), rp, signature=None)


# ------------------------------------------------------------------------------- part G: the hook belongs to the write
def part_hook(ctx):
    """With a [storage] hook configured, write + hook is one transaction: the snapshots taken by the hook runs of two
    concurrent PUTs must be those of a one-at-a-time execution ({one event}, {both})."""
    for stype in ("multifilesystem", "multifilesystem_nolock"):
        r = xc.run_hook_pair(stype)
        ctx.case(("hook", stype), nontrivial=True)
        ctx.count("hook:runs")
        serial = (r["statuses"] == [201, 201] and len(r["snapshots"]) == 2 and len(r["snapshots"][0]) == 1
                  and r["snapshots"][1] == ["e1.ics", "e2.ics"])
        if not serial:
            ctx.violation("storage hook configured: the hook runs of two concurrent PUTs saw %r -- in every one-at-a-time execution the "
                          "first run sees one event and the second both (%s)" % (r["snapshots"], stype),
                          dict(kind="hook", storage_type=stype, snapshots=r["snapshots"], statuses=r["statuses"]), signature=None)
            return

# ------------------------------------------------------------------------------- part H: queueing at the lock while time passes
def part_contended(ctx, et):
    """Requests that QUEUE at the storage lock of one Application while another request stays inside its critical
    section, and time passes meanwhile (the lock modules' clock runs 1000 times faster, so every timed wait / sleep /
    deadline of the lock code expires before the holder leaves: how long a holder stays is a choice of the schedule).
    Monitors: at every entry any number of readers or exactly one writer; every request answered; the outcome is
    that of a serial order (decided in Coq)."""
    rng = ctx.rng
    w = xc.owner_world(rng)
    ev = (0, "CEvent", 0)
    cal = [(1, ("RPropfind", (10,), False)), (2, ("RPropfind", (11,), False)), (1, ("RMkcalendar", (10, 20), ("XNone",)))]
    pp = lambda k, v: (1, ("RProppatch", (10, 20), ("XProps", ("TRNone",), [(k, v)])))      # noqa: E731
    holders = [(pp(3, 1), "w"), ((1, ("RPropfind", (10, 20), True)), "r"), ((1, ("RGet", (10, 20))), "r")]
    waiter_sets = [
        ("create-create", cal, [PUT(1, (10, 20, 100), ev, inm=True), PUT(1, (10, 20, 100), (0, "CEvent", 1), inm=True)]),
        ("proppatch-proppatch-get", cal, [pp(1, 1), pp(2, 2), (1, ("RGet", (10, 20)))]),
        ("three-creates", cal, [PUT(1, (10, 20, 100), (0, "CEvent", k), inm=True) for k in range(2)] + [PUT(1, (10, 20, 100), (0, "CTodo", 0), inm=True)]),
        ("if-match-race-and-readers", cal + [PUT(1, (10, 20, 100), ev)],
         [PUT(1, (10, 20, 100), (0, "CEvent", 1), im=("CTag", ("EtItem", ev))), (1, ("RPropfind", (10, 20), True)),
          PUT(1, (10, 20, 100), (0, "CTodo", 1), im=("CTag", ("EtItem", ev))), (1, ("RMultiget", (10, 20), True, [(10, 20, 100)]))]),
    ]
    plan = []
    for k, (name, setup, ws) in enumerate(waiter_sets):
        for j, (h, pm) in enumerate(holders):
            if ctx.tier == "quick" and j == 2 and k % 2:
                continue
            for stype in ("multifilesystem_nolock", "multifilesystem"):
                plan.append((name, setup, h, pm, ws, stype))
    for k in range(ctx.n(6, 60)):
        h = xc.gen_request(rng, 1, False, reads=0.5)
        pm = "r" if h[1][0] in ("RPropfind", "RGet", "RMultiget") or rng.random() < 0.25 else "w"
        ws = [xc.gen_request(rng, 1, False, reads=0.25) for _ in range(rng.choice([2, 2, 3, 3, 4]))]
        plan.append(("gen", xc.gen_setup(rng, 2), h, pm, ws, "multifilesystem_nolock" if k % 3 else "multifilesystem"))
    runs, cases = [], []
    reported = False
    for name, setup, h, pm, ws, stype in plan:
        r = xc.run_contended_lock(w, [], setup, h, pm, ws, et, stype)
        ctx.case(("contended", name, repr(h), pm, repr(ws), stype), nontrivial=bool(r["parked"] and r["queued"]))
        ctx.count("contended:%s" % stype)
        ctx.count("contended:holder-%s" % pm)
        ctx.count("contended:queued-requests", r["queued"])
        ctx.count("contended:timed-waits-expired", r["expired"])
        rp = dict(kind="contended", name=name, world=x_hcheck.world_json(w), setup=setup, holder=h, park_mode=pm, waiters=ws,
                  storage_type=stype, lock_events=[(i, what, {str(j): m for j, m in o.items()}) for i, what, o in r["events"]][:80],
                  timed_waits_expired=r["expired"], responses=[repr(c) for c in r["resps"]], store=repr(r["store"]),
                  note="thread 0 = the holder, parked inside its first %r section while the others queue; the clock of the lock "
                       "modules runs 1000 times faster than the real one" % pm)
        if r["overlaps"] and not reported:
            reported = True
            i, m, others = r["overlaps"][0]
            ctx.violation("the storage lock (%s) let request %d enter a %r section while %s -- after it had queued behind a request that "
                          "stayed inside its %r section (%d timed wait(s) of the lock code expired meanwhile); responses %s" % (
                              stype, i, m, ", ".join("request %d was inside a %r section" % jm for jm in sorted(others.items())), pm,
                              r["expired"], rp["responses"]), rp, signature=None)
        if r["hung"] and not reported:
            reported = True
            ctx.violation("request(s) %r never answered after queueing at the storage lock (%s) behind a request that stayed inside its "
                          "%r section" % (r["hung"], stype, pm), rp, signature=None)
        if any(r["errors"]) or any(c is None for c in r["resps"]):
            if not r["hung"]:
                ctx.obligation("contended-scenario-ran", False, repr((name, stype, r["errors"]))[:500])
            continue
        runs.append((rp, r))
        cases.append(((w, [], setup, [h] + ws, []), (r["store"], r["setup"], r["resps"])))
    ctx.obligation("contended-scenario-queued", any(r["parked"] and r["queued"] >= 2 for _, r in runs),
                   "no run had two requests queueing at the lock behind a parked holder")
    nonser = ctx.diff_cases("contended_ser", xc.COQ_HEADER, "(fun c => c)", cases, xc.enc_sched_case, xc.enc_sched_out, "ser_case", shard=40)
    if nonser is None:
        return
    ctx.extra["contended"] = dict(run=len(runs), queued=sum(r["queued"] for _, r in runs), not_serialisable=len(nonser))
    ctx.obligation("correspondence:contended-serialisable", not nonser,
                   "" if not nonser else "%d of %d outcomes of requests that queued at the lock are those of no serial order" % (len(nonser), len(runs)))
    for i in nonser[:1]:
        rp, r = runs[i]
        ctx.violation("requests that queued at the storage lock (%s) behind a slow request: outcome of no one-at-a-time execution "
                      "(%s: %s; store %s)" % (rp["storage_type"], rp["name"], rp["responses"], rp["store"][:300]), rp, signature=None)


# ------------------------------------------------------------------------------- entry points
def run(ctx):
    ctx.rule = ("(a) schedules: a pair / triple of abstract requests (PUT item / whole collection, DELETE, MOVE, MKCALENDAR, PROPPATCH, GET, "
                "PROPFIND 0/1, REPORT multiget; conditional headers; same or different user; home present or not; 0-2 predefined "
                "collections) x one placement of their critical sections (all 20 placements for the corpus and every third pair); "
                "distinct by (requests, set-up, configuration, observed lock-event sequence), non-trivial = both threads took the lock; "
                "(b) stress: one recorded concurrent history per run (2-16 threads or 2-4 processes, <= 16 operations), distinct by "
                "(thread layout, requests, seed), non-trivial = at least one pair of operations overlapped in real time; "
                "(c) queueing: one request parked inside its r / w section x 2-4 requests queueing at the storage lock meanwhile x storage "
                "type, the lock code's clock running 1000 times faster (timed waits expire), non-trivial = somebody queued")
    ctx.assumptions += [
        "the lock admits either any number of readers or exactly one writer (C11) -- taken as the definition of an admitted schedule",
        "every storage access of a handler lies inside its critical sections in a sufficient mode (C10, regenerated skeleton)",
        "the cache area never influences responses (C13) -- hypothesis `wf` of the theorems, not an axiom",
        "real interleavings at system-call granularity and multi-process flock contention are SAMPLED (stress part), not proved",
        "request bodies outside the abstract grammar of Model/Handlers.v are not generated",
    ]
    ctx.level = "proof"
    ctx.prove(extra_targets=["Model/ConcHandlers.vo", "Model/HandlersCanon.vo"])
    from vlib import core
    with core.coq_lock():
        rc, out = core.make(["Model/ConcHandlers.vo", "Model/HandlersCanon.vo"])     # the model must run even when a proof breaks
    ctx.obligation("model-builds", rc == 0, out[-800:] if rc else "")
    if rc != 0:
        return
    old_tmp = tempfile.tempdir
    fast = "/dev/shm" if os.path.isdir("/dev/shm") and os.access("/dev/shm", os.W_OK) else None
    try:
        tempfile.tempdir = fast          # storage folders of the scripted / thread runs on tmpfs (6x faster here)
        et = x_hcheck.etags()
        part_schedules(ctx, et)
        ctx.log("schedules done")
        part_stress(ctx, et)
        ctx.log("thread stress done")
        part_readers(ctx)
        ctx.log("concurrent readers done")
        part_contended(ctx, et)
        ctx.log("queueing at the lock done")
        tempfile.tempdir = old_tmp       # several processes / instances, one folder: on the real disk file system (flock)
        part_procs(ctx, et)
        ctx.log("process stress done")
        part_instances(ctx, et)
        ctx.log("two instances done")
        part_served(ctx, et)
        ctx.log("serve() with two sockets done")
        part_hook(ctx)
        ctx.log("hook done")
    finally:
        tempfile.tempdir = old_tmp
    ctx.trusted += ["vlib/x_c09.py: the scripted scheduler (wrapper around storage.acquire_lock), the interval recorder, the "
                    "audit-hook sleeps, the fast clock given to the lock modules (scaled time-outs / sleeps); canonicalisation of responses and of the storage folder (vlib/x_handlers.py)"]


def replay(ctx, path):
    data = json.load(open(path))
    rp = data.get("replay", data)
    et = x_hcheck.etags()
    world = x_hcheck.detuple_world(rp["world"]) if "world" in rp else None
    if rp.get("kind") == "schedule":
        pre = [(n, t, [tuple(kv) for kv in props]) for n, t, props in rp["predefined"]]
        setup = x_hcheck.detuple_hist(rp["setup"])
        reqs = x_hcheck.detuple_hist(rp["requests"])
        r = xc.run_scripted(world, pre, setup, reqs, rp["turns"], et, rp.get("storage_type", "multifilesystem"))
        print("lock events:", r["log"])
        for (ui, q), c in zip(reqs, r["resps"]):
            print("request", ui, q, "->", c)
        print("final store:", r["store"])
        lost = lost_writes(reqs, r["resps"], r["store"])
        print("acknowledged writes lost:", lost)
        same = [repr(c) for c in r["resps"]] == rp.get("responses") and repr(r["store"]) == rp.get("store")
        print("same outcome as recorded:", same)
        return 1 if (lost or (same and data.get("signature") != xc.KNOWN_SPLIT and not lost and "lost" not in rp)) else 0
    if rp.get("kind") == "instances":
        setup = x_hcheck.detuple_hist(rp["setup"])
        (a, b) = x_hcheck.detuple_hist([rp["a"], rp["b"]])
        r = xc.run_two_instances(world, [], setup, a, b, et, rp["cache_mode"], rp["second_instance_constructed_while_request_in_flight"],
                                 park=rp.get("park", "enter"), flock_errno=rp.get("flock_errno_injected_for_instance_2"))
        print("lock events (who, what, instance 1 inside its exclusive section?):", r["events"])
        print("responses:", r["resps"])
        print("final store:", r["store"])
        print("instance 2 entered while instance 1 held the lock:", r["entered_while_held"], r["b_done_while_held"])
        fault = rp.get("flock_errno_injected_for_instance_2")
        if fault is not None:
            return 1 if (r["entered_while_held"] or (r["resps"][1] or ("",))[0] != "S500") else 0
        return 1 if (r["entered_while_held"] or r["b_done_while_held"]) else 0
    if rp.get("kind") == "hook":
        r = xc.run_hook_pair(rp["storage_type"])
        print("hook snapshots:", r["snapshots"], "statuses:", r["statuses"])
        return 0 if (len(r["snapshots"]) == 2 and len(r["snapshots"][0]) == 1) else 1
    if rp.get("kind") == "served":
        setup = x_hcheck.detuple_hist(rp["setup"])
        (a, b) = x_hcheck.detuple_hist([rp["a"], rp["b"]])
        r = xc.run_served_pair(world, [], setup, a, b, et, rp["storage_type"])
        print("responses:", r["resps"], "\nfinal store:", r["store"], "\nB completed while A was parked inside its exclusive section:", r["b_done_while_a_parked"])
        return 1 if r["b_done_while_a_parked"] else 0
    if rp.get("kind") == "contended":
        setup = x_hcheck.detuple_hist(rp["setup"])
        reqs = x_hcheck.detuple_hist([rp["holder"]] + rp["waiters"])
        r = xc.run_contended_lock(world, [], setup, reqs[0], rp["park_mode"], reqs[1:], et, rp["storage_type"])
        print("lock events (request, what, who was inside):")
        for e in r["events"]:
            print("  ", e)
        print("timed waits of the lock code that expired:", r["expired"])
        print("responses:", r["resps"], "\nfinal store:", r["store"])
        print("entries that break 'readers xor one writer':", r["overlaps"], " never answered:", r["hung"])
        return 1 if (r["overlaps"] or r["hung"]) else 0
    if rp.get("kind") == "cold-readers":
        bad = xc.run_cold_item_readers(rp["storage_type"], rp["variant"], rp["request"], rounds=rp["rounds"])
        print("answers that differ from the answer of the same request alone:", len(bad))
        for b in bad[:2]:
            print(json.dumps(b, indent=1)[:2000])
        return 1 if bad else 0
    if rp.get("kind") == "readers":
        bad = xc.run_concurrent_readers(3, [tuple(x) for x in rp["plan"]], rp["storage_type"], rounds=rp["rounds"])
        print("answers that differ from the answer of the same request alone:", len(bad))
        for b in bad[:2]:
            print(json.dumps(b, indent=1)[:2500])
        return 1 if bad else 0
    if rp.get("kind") == "history":
        pre = [(n, t, [tuple(kv) for kv in props]) for n, t, props in rp["predefined"]]
        setup = x_hcheck.detuple_hist(rp["setup"])
        lay = rp.get("layout") or {}
        print("recorded history:")
        for o in rp["operations"]:
            print("  [%6d..%6d us] user %s %s -> %s" % (o["invoked_us"], o["returned_us"], o["user"], o["request"], o["response"]))
        print("final store:", rp["store"])
        if not lay:
            return 0
        from vlib import core
        with core.coq_lock():
            core.make(["Model/ConcHandlers.vo", "Model/HandlersCanon.vo"])
        hists = []
        for k in range(30):
            if lay["kind"] == "threads":
                threads = [x_hcheck.detuple_hist(t) for t in lay["threads"]]
                r = xc.run_stress_threads(world, pre, setup, threads, et, lay["seed"] + k, lay["storage_type"])
            else:
                procs = [[x_hcheck.detuple_hist(t) for t in p] for p in lay["processes"]]
                r = xc.run_stress_procs(world, pre, setup, procs, et, lay["seed"] + k, cache_mode=lay.get("cache_mode", "none"))
            hists.append(("rerun %d" % k, world, pre, setup, r))
        judge_histories(ctx, "replay", hists)
        print("re-runs:", ctx.extra.get("stress", {}).get("replay"))
        for v in ctx.violations[:1]:
            print("again:", v["what"])
        return 1 if any(v["signature"] != xc.KNOWN_SPLIT for v in ctx.violations) else 0
    print(json.dumps(data, indent=1)[:4000])
    return 0
