"""C19 -- Hostile XML request bodies are inert.

1. proof (Props/C19.v) over the regenerated Gen/Skeleton.v (handler skeletons) and Gen/XmlGen.v (parse sites,
   exception clauses, response constants): parse first; a failing body read does nothing but raise / catch and ends
   in Return 400 / 408 or leaves the handler (-> 500); the store is unchanged; the response is one of three closed
   constants; the prolog scanner decides `declares_entity` on the attack grammar.
2. correspondence (tie K), evaluated inside Coq: for every generated term of the attack grammar x 5 methods x
   3 charsets (+ charset fall-back cases) `XmlReject.corr_case` -- render the term, scan it, run the model of
   decode_request / _read_xml_request_body / handler clauses / __call__ with the SPECIFICATION of defusedxml on the
   grammar -- must give the status and response text the real server gave, and the rendered text must be the text
   that was sent (fingerprint).  This is what validates the assumption "declares_entity -> refused by the parser".
3. monitors on the real server run under `strace -f` (the property stated directly): a body that declares an entity
   is rejected (400 / 500); during ANY request of the run no decoy access, no open outside the storage folder and the
   runtime prefixes, no socket / connect; a rejected request performs no mutating call and leaves the store dump
   unchanged; the decoy secret never shows up in a response or in the store; wall time and peak-RSS growth per
   request stay under fixed limits.
"""
import base64
import json
import os
import random
import re
import shutil
import sys
import tempfile

from vlib import core, trace, x_c19 as X

HEADER = """From Coq Require Import List NArith Bool String.
Import ListNotations.
Require Import RV.Lib.PyStr RV.Model.XmlProlog RV.Model.XmlReject.
Open Scope N_scope.
(* one term of the grammar with one method, and the variants (declared charset, decode results, observed outcome) it was sent
   with: the term is written -- and parsed by coqc -- once *)
Definition corr_group (fd : bool)
    (x : method * attack * rootkind * list (option pystr * list (pystr * N) * (bool * (N * N) * N * pystr))) : bool :=
  let '(m, a, rk, vs) := x in
  forallb (fun v => let '(ct, rs, e) := v in corr_eqb (corr_case fd (m, a, rk, ct, rs)) e) vs.
"""

TIME_LIMIT_S = 2.0
RSS_LIMIT_KB = 50 * 1024
SUCCESS = {"PROPFIND": 207, "PROPPATCH": 207, "REPORT": 207, "MKCOL": 201, "MKCALENDAR": 201}
SECRET = "DECOY-SECRET-c19-7f3a91"
EVENT = ("BEGIN:VCALENDAR\r\nPRODID:-//v//EN\r\nVERSION:2.0\r\nBEGIN:VEVENT\r\nUID:e1\r\nSUMMARY:s\r\n"
         "DTSTAMP:20130901T000000Z\r\nDTSTART:20130901T180000Z\r\nDTEND:20130901T190000Z\r\nEND:VEVENT\r\nEND:VCALENDAR\r\n")
RESTORE = ('<?xml version="1.0"?><D:propertyupdate xmlns:D="DAV:"><D:set><D:prop><D:displayname>base</D:displayname>'
           '</D:prop></D:set></D:propertyupdate>')
MKCAL = ('<?xml version="1.0"?><C:mkcalendar xmlns:D="DAV:" xmlns:C="urn:ietf:params:xml:ns:caldav"><D:set><D:prop>'
         '<D:displayname>base</D:displayname></D:prop></D:set></C:mkcalendar>')
CONF = {"auth": {"type": "http_x_remote_user"}, "rights": {"type": "owner_only"}}


def forbid_dtd_in_source():
    """the forbid_dtd keyword of the parse call in the current source (the model is parametric in it)"""
    try:
        from translate import t_c19xml as T
        sites = [s for s in T.parse_sites(core.REPO) if len(s) == 4 and s[1] == "DefusedET.fromstring"]
        kw, _ = T.read_shape(core.REPO, sites[0][3])
        return bool(kw["forbid_dtd"])
    except Exception:
        return False


# ---------------------------------------------------------------------------------------------- building the run
def b64(b):
    return base64.b64encode(b).decode()


def decode_results(data, names, text):
    """what bytes.decode(name) does for each charset name the server may try"""
    out = []
    for n in names:
        try:
            s = data.decode(n)
            out.append((n, 0 if s == text else 3, s))
        except UnicodeDecodeError:
            out.append((n, 1, None))
        except LookupError:
            out.append((n, 2, None))
    return out


def build_requests(ctx, decoy):
    rng = ctx.rng
    reqs, cases = [], []
    setup = [
        dict(method="PROPFIND", path="/u/", user="u", aux=True),            # first login: the gate creates /u/
        dict(method="MKCALENDAR", path="/u/cal/", user="u", body=MKCAL.encode(), ctype="text/xml; charset=utf-8", aux=True),
        dict(method="PUT", path="/u/cal/e1.ics", user="u", body=EVENT.encode(), ctype="text/calendar; charset=utf-8", aux=True),
    ]
    for i, r in enumerate(setup):
        r["mark"] = "s%d" % i
    reqs += setup

    def add(kind, seed, serial, charsets, special=None):
        for m in X.METHODS:
            a = X.gen_attack(random.Random(seed), m, kind, decoy, serial)
            text = X.render(a)
            for cs in charsets:
                codec, named = X.CHARSETS[cs]
                ctype = "text/xml; charset=%s" % named
                data = text.encode(codec)
                label = cs
                if special == "fallback":
                    # declared utf-8, sent as latin-1 with a non-ASCII character in a comment: utf-8 fails, iso8859-1 decodes
                    a2 = dict(a)
                    a2["after"] = [("comment", " caf\u00e9 ")] + list(a["after"])
                    a, text = a2, X.render(a2)
                    data, ctype, named, label = text.encode("latin-1"), "text/xml; charset=utf-8", "utf-8", "latin-1-as-utf-8"
                elif special == "unknown":
                    ctype, named, label = "text/xml; charset=x-c19-unknown", "x-c19-unknown", "unknown-charset"
                elif special == "nocharset":
                    ctype, named, label = "text/xml", None, "no-charset"
                names = ([named] if named else []) + ["utf-8", "iso8859-1"]
                dres = decode_results(data, names, text)
                idx = len(cases)
                path = "/u/cal/" if m in ("PROPFIND", "PROPPATCH", "REPORT") else "/u/n%d/" % idx
                mark = "c%d" % idx
                reqs.append(dict(method=m, path=path, user="u", body=data, ctype=ctype, mark=mark))
                cases.append(dict(idx=idx, mark=mark, method=m, path=path, kind=kind, charset=label, named=named, a=a, text=text,
                                  data=data, ctype=ctype, dres=dres, declares=X.declares(a), seed=seed))
                # restore the baseline after a request that may legitimately have been handled
                if not X.declares(a):
                    if m in ("MKCOL", "MKCALENDAR"):
                        reqs.append(dict(method="DELETE", path=path, user="u", aux=True, mark="r%d" % idx))
                    elif m == "PROPPATCH":
                        reqs.append(dict(method="PROPPATCH", path=path, user="u", body=RESTORE.encode(),
                                         ctype="text/xml; charset=utf-8", aux=True, mark="r%d" % idx))

    serial = 0
    three = ["utf-8", "utf-16", "latin-1"]
    hostile_n, accepted_n, control_n = ctx.n(36, 330), ctx.n(10, 50), ctx.n(10, 40)
    # every hostile kind at least once, then random ones
    kinds = list(dict.fromkeys(X.HOSTILE_KINDS))
    kinds += [rng.choice(X.HOSTILE_KINDS) for _ in range(max(0, hostile_n - len(kinds)))]
    for k in kinds:
        serial += 1
        add(k, rng.randrange(10**9), serial, three)
    akinds = list(X.ACCEPTED_KINDS) + [rng.choice(X.ACCEPTED_KINDS) for _ in range(max(0, accepted_n - len(X.ACCEPTED_KINDS)))]
    for k in akinds:
        serial += 1
        add(k, rng.randrange(10**9), serial, three)
    ckinds = list(dict.fromkeys(X.CONTROL_KINDS)) + [rng.choice(X.CONTROL_KINDS) for _ in range(max(0, control_n - 3))]
    for k in ckinds:
        serial += 1
        add(k, rng.randrange(10**9), serial, three)
    # charset handling of decode_request: fall-back chain, unknown codec, no charset parameter
    for special in ("fallback", "unknown", "nocharset"):
        for k in ("ext_general", "lol", "valid", "malformed", "bare_doctype"):
            serial += 1
            add(k, rng.randrange(10**9), serial, ["utf-8"], special=special)
    # ---- mis-declared / undeclared encodings: decode_request has to GUESS, and may guess wrongly.  Whatever text comes out
    # (the intended one, or a mis-decoded one that is not well-formed), a body that declares an entity must be rejected and
    # inert; in particular nothing may look at the raw bytes again with another parser.
    ENC = [("utf-16-bom", "utf-16", "utf-16", "utf-8"), ("utf-16le", "utf-16-le", "utf-16", "utf-8"),
           ("utf-16be", "utf-16-be", "utf-16", "utf-16"), ("utf-32", "utf-32", "utf-32", "utf-8"),
           ("utf-8-bom", "utf-8-sig", "utf-8", "iso-8859-1"), ("cp1252", "cp1252", "windows-1252", "utf-8")]
    kinds = list(dict.fromkeys(X.HOSTILE_KINDS))
    rot = 0
    for k in kinds:
        for label, codec, xmlname, wrong in ENC:
            for ctmode in ("none", "wrong", "xmldecl"):
                serial += 1
                seed = rng.randrange(10**9)
                methods = X.METHODS if not ctx.quick else [X.METHODS[rot % 5]]
                rot += 1
                for m in methods:
                    decl = ("pi", "xml", 'version="1.0" encoding="%s"' % xmlname) if ctmode == "xmldecl" else None
                    a = X.gen_attack(random.Random(seed), m, k, decoy, serial, force_decl=decl)
                    if label == "cp1252":
                        a = dict(a)
                        a["after"] = [("comment", " caf\u00e9 ")] + list(a["after"])
                    text = X.render(a)
                    data = text.encode(codec)
                    named = wrong if ctmode == "wrong" else None
                    ctype = "text/xml; charset=%s" % named if named else "text/xml"
                    names = ([named] if named else []) + ["utf-8", "iso8859-1"]
                    dres = []
                    for n_, code, s_ in decode_results(data, names, text):
                        if code == 3 and s_ == "\ufeff" + text:
                            code = 0          # a decoded byte-order mark in front of the text: expat skips it
                        elif code == 3 and s_.encode("utf-8", "surrogatepass") in (text.encode("utf-16-le"), text.encode("utf-16-be")):
                            # BOM-less UTF-16 of an ASCII text read as utf-8 / latin-1 gives the text with NULs interleaved;
                            # pyexpat hands it to expat as bytes and expat auto-detects UTF-16: the (defused) parser sees
                            # the intended document
                            code = 0
                        dres.append((n_, code, s_))
                    idx = len(cases)
                    path = "/u/cal/" if m in ("PROPFIND", "PROPPATCH", "REPORT") else "/u/n%d/" % idx
                    mark = "c%d" % idx
                    reqs.append(dict(method=m, path=path, user="u", body=data, ctype=ctype, mark=mark))
                    cases.append(dict(idx=idx, mark=mark, method=m, path=path, kind=k, charset="%s/ct-%s" % (label, ctmode),
                                      named=named, a=a, text=text, data=data, ctype=ctype, dres=dres, declares=True, seed=seed))
    return reqs, cases


def wire(reqs):
    out = []
    for r in reqs:
        out.append(dict(method=r["method"], path=r["path"], user=r.get("user"), ctype=r.get("ctype"), mark=r["mark"],
                        aux=bool(r.get("aux")), b64=b64(r["body"]) if r.get("body") is not None else None))
    return out


def run_driver(ctx, base, reqs, timeout, tag="", strace=True, **extra):
    folder = os.path.join(base, "storage" + tag)
    os.makedirs(folder, exist_ok=True)
    spec, outp, tr = os.path.join(base, "spec%s.json" % tag), os.path.join(base, "out%s.json" % tag), os.path.join(base, "trace%s.txt" % tag)
    for p in (outp, tr):
        if os.path.exists(p):
            os.remove(p)
    d = dict(folder=folder, conf=CONF, secret=SECRET, limits=dict(as_bytes=4 << 30, alarm_s=20), requests=wire(reqs))
    d.update(extra)
    json.dump(d, open(spec, "w"))
    argv = [core.PY, os.path.join(core.VERIF, "vlib/drivers/c19_driver.py"), spec, outp]
    if strace:
        rc, out = trace.run_traced(argv, tr, timeout=timeout)
    else:
        rc, out = core.sh(argv, timeout=timeout)
    if rc != 0 or not os.path.exists(outp):
        return None, None, out
    results = {r["mark"]: r for r in json.load(open(outp))}
    windows = {}
    if strace:
        for label, evs in trace.split_by_marks(trace.parse(tr)):
            if label.startswith("q"):
                windows[label[1:]] = evs
    return results, windows, out


# ---------------------------------------------------------------------------------------------- monitors
def read_prefixes(folder):
    return [os.path.realpath(folder), sys.prefix, sys.base_prefix, os.path.realpath(core.REPO), "/usr/lib", "/usr/local/lib",
            "/lib", "/etc/", "/proc/", "/dev/", "/sys/", "/usr/share/zoneinfo", "/usr/share/locale", "/rv-mark/",
            os.path.join(core.VERIF, "vlib"), "/venv", "/opt/conda", "/root/.cache"]


def syscall_monitor(evs, base, folder, decoy, rejected):
    """Returns a list of offending events (description strings) for one request window."""
    bad = []
    real_folder = os.path.realpath(folder)
    prefixes = read_prefixes(folder)
    locks = [e for e in evs if e.call == "flock" and re.search(r"LOCK_SH|LOCK_EX", e.args)]
    if rejected:
        # parse first, on the implementation: the only lock a rejected request of a logged-in user ever takes is the shared
        # one of the gate's principal look-up; the handler must not have reached its own acquire_lock
        if any("LOCK_EX" in e.args for e in locks):
            bad.append("request that must be rejected took the exclusive storage lock: flock(%s)" % [e for e in locks if "LOCK_EX" in e.args][0].args[:100])
        elif len(locks) > 1:
            bad.append("request that must be rejected took the storage lock %d times (gate: once)" % len(locks))
    for e in evs:
        if e.call == "connect":
            bad.append("connect(%s)" % e.args[:120])
            continue
        if e.call == "socket":
            if re.search(r"AF_INET|AF_INET6|AF_PACKET", e.args):
                bad.append("socket(%s)" % e.args[:80])
            continue
        if e.call == "execve":
            bad.append("execve(%s)" % e.args[:120])
            continue
        if e.call in ("close", "write", "pwrite64", "fsync", "fdatasync", "flock", "getdents64"):
            continue
        for p in e.paths:
            if not p or p.startswith("/rv-mark/"):
                continue
            ap = os.path.normpath(p if p.startswith("/") else os.path.join(folder, p))
            if ap == os.path.normpath(decoy) or os.path.basename(ap) == os.path.basename(decoy):
                bad.append("%s touches the decoy %s" % (e.call, ap))
                continue
            inside = ap == real_folder or ap.startswith(real_folder + "/")
            is_mut = e.call in trace.MUTATING or (e.call in ("open", "openat", "creat")
                                                   and re.search(r"O_WRONLY|O_RDWR|O_CREAT|O_TRUNC|O_APPEND", e.args))
            ok_ret = e.ret is not None and e.ret >= 0
            if not inside and ok_ret and e.call in ("open", "openat", "creat") and not any(ap.startswith(x) for x in prefixes) \
                    and ap not in ("/", "/tmp", base, "/usr", "/root"):
                bad.append("%s of %s (outside the storage folder and the runtime prefixes)" % (e.call, ap))
            if is_mut and not inside and ok_ret and not ap.startswith("/dev/"):
                bad.append("mutating %s outside the storage folder: %s" % (e.call, ap))
            if rejected and is_mut and inside and ok_ret and not os.path.basename(ap).startswith(".Radicale.lock"):
                bad.append("rejected request performs %s on %s" % (e.call, ap))
    return bad


def observed(c, res):
    """canonical observation of one main request for the comparison with the model"""
    st = res.get("status")
    body = res.get("body", "")
    if st == SUCCESS[c["method"]]:
        return 0, ""
    return st, body


def expected_tuple(c, res):
    ln, h = X.fingerprint(c["text"])
    st, body = observed(c, res)
    return True, ln, h, st, body


def enc_in(c):
    res = "[" + ";".join("(%s, %d)" % (X.e_str(n), code) for n, code, _ in c["dres"]) + "]"
    ct = "(@None (list N))" if c["named"] is None else "(Some %s)" % X.e_str(c["named"])
    return "(%s, %s, %s, %s, %s)" % (X.COQ_METHOD[c["method"]], X.e_attack(c["a"]), X.ROOTKIND[c["a"]["rootkind"]], ct, res)


def enc_out(t):
    wf, ln, h, st, body = t
    return "(%s, (%d, %d), %d, %s)" % ("true" if wf else "false", ln, h, st if st >= 0 else 998, X.e_str(body))


def replay_of(c, res, extra=None):
    d = dict(method=c["method"], path=c["path"], user="u", ctype=c["ctype"], charset=c["charset"], kind=c["kind"],
             body_b64=b64(c["data"]), body_text=c["text"][:1500] + ("..." if len(c["text"]) > 1500 else ""),
             observed=dict(status=res.get("status"), body=(res.get("body") or "")[:300], dt=res.get("dt"),
                           rss_growth_kb=(res.get("rss1", 0) - res.get("rss0", 0)), error=res.get("error")),
             setup="first login of u (gate creates /u/), MKCALENDAR /u/cal/, PUT /u/cal/e1.ics",
             note="./check C19 --replay <this file> re-runs set-up + this request under strace and prints the verdicts")
    if extra:
        d.update(extra)
    return d


def evaluate(ctx, base, decoy, reqs, cases, results, windows, record=True, tag="", syscalls=True):
    """monitors; returns list of (what, case, res, extra)"""
    folder = os.path.join(base, "storage" + tag)
    found = []
    prev_dump = None
    order = [r["mark"] for r in reqs]
    by_mark = {c["mark"]: c for c in cases}
    baseline = None
    for mk in order:
        res = results.get(mk)
        if res is None:
            continue
        c = by_mark.get(mk)
        if c is None:
            # set-up / restore requests
            if mk.startswith("s"):
                baseline = res["dump"]
            elif mk.startswith("r") and baseline is not None and res["dump"] != baseline and record:
                ctx.extra.setdefault("restore_mismatch", []).append(mk)
            prev_dump = res["dump"]
            continue
        st = res.get("status")
        rejected = st in (400, 500)
        what = []
        if st is None or st < 0:
            what.append("request did not complete: %s" % res.get("error"))
        if c["declares"] and not rejected:
            what.append("body declaring an entity was not rejected: status %s" % st)
        if res.get("resp_leak"):
            what.append("decoy content in the response")
        if rejected:
            rb = res.get("body") or ""
            echo = next((rb[i:i + 8] for i in range(max(0, len(rb) - 7)) if rb[i:i + 8] in c["text"]), None)
            if echo is not None:
                what.append("the response to a rejected body repeats part of the body (%r): %r" % (echo, rb[:160]))
        if res.get("store_leak"):
            what.append("decoy content stored")
        if (rejected or c["declares"]) and prev_dump is not None and res["dump"] != prev_dump:
            what.append("store changed by a request that must be inert (added %s, removed %s)" % (
                res.get("paths_added"), res.get("paths_removed")))
        if res.get("dt", 0) > TIME_LIMIT_S:
            what.append("request took %.2f s (limit %.1f s)" % (res["dt"], TIME_LIMIT_S))
        if res.get("rss1", 0) - res.get("rss0", 0) > RSS_LIMIT_KB:
            what.append("peak RSS grew by %d kB (limit %d kB)" % (res["rss1"] - res["rss0"], RSS_LIMIT_KB))
        evs = windows.get(mk) if syscalls else []
        if evs is None:
            what.append("no system-call window recorded for the request")
        elif syscalls:
            sc = syscall_monitor(evs, base, folder, decoy, rejected or c["declares"])
            what += sc[:3]
        prev_dump = res["dump"]
        if what:
            found.append(("; ".join(what), c, res))
    return found


def run(ctx):
    ctx.rule = ("one case = one request: a term of the attack grammar (13 hostile kinds incl. external general / parameter "
                "entities with file: and http: references, out-of-band chain, nested expansion depth<=12 fan-out<=10, quadratic "
                "blow-up, unparsed entity, entity references in element text / attribute values; 5 kinds of DOCTYPE without "
                "entity declaration; control: valid / malformed / undefined reference) x 5 methods x 3 charsets (+ charset "
                "fall-back, unknown codec, no charset) + every hostile kind x 6 encodings (utf-16 BOM / LE / BE, utf-32, utf-8 BOM, cp1252) x "
                "Content-Type {no charset, wrong charset, charset only in the XML declaration}.  Distinct by (fingerprint of the body text, method, charset); "
                "non-trivial = the body has a DOCTYPE or is malformed")
    ctx.assumptions += [
        "expat + defusedxml are not modelled: theorems are 'rejection => inert' under the explicit hypothesis that a text in "
        "which the scanner finds an <!ENTITY declaration is refused (validated on every run by the correspondence)",
        "that the refusal happens before any expansion / resolution and within bounded time and memory is established by the "
        "monitors (strace, timing, ru_maxrss) only -- sampled, not proved",
        "translate/t_skeleton.py and translate/t_c19xml.py (fail-closed translators) and the trace semantics exec of "
        "Model/LockDiscipline.v are trusted; storage mutation happens only inside Storage events (C10's table)",
        "a bare DOCTYPE / external identifier / subset without entity declarations is accepted by defusedxml's defaults "
        "without resolving anything; the property is read as being about bodies that declare entities",
    ]
    ctx.trusted.append("expat / defusedxml: modelled only by the specification spec_parse on the attack grammar (tie K)")
    ctx.prove()
    base = tempfile.mkdtemp(prefix="rv-c19-")
    try:
        _run(ctx, base)
    finally:
        shutil.rmtree(base, ignore_errors=True)


def _run(ctx, base):
    decoy = os.path.join(base, "decoy-c19.txt")
    with open(decoy, "w") as f:
        f.write(SECRET + "\n")
    reqs, cases = build_requests(ctx, decoy)
    ctx.log("requests: %d main, %d total" % (len(cases), len(reqs)))
    results, windows, out = run_driver(ctx, base, reqs, timeout=ctx.n(900, 3000))
    if results is None:
        ctx.obligation("trace:driver-ran", False, out[-1500:])
        return
    ctx.obligation("trace:driver-ran", True)
    ctx.log("driver under strace finished")
    ctx.traces_validated = len([c for c in cases if c["mark"] in windows])
    # ---------------------------------------------------------------- coverage
    for c in cases:
        res = results.get(c["mark"], {})
        fp = X.fingerprint(c["text"])
        nontrivial = c["a"]["doctype"] is not None or c["a"]["rootkind"] != "valid"
        ctx.case((fp, c["method"], c["charset"]), nontrivial=nontrivial,
                 sample=dict(kind=c["kind"], method=c["method"], charset=c["charset"], status=res.get("status"),
                             body=c["text"][:200]) if c["idx"] % 97 == 0 else None)
        ctx.count("kind:" + c["kind"])
        ctx.count("method:" + c["method"])
        ctx.count("charset:" + c["charset"])
        ctx.count("status:%s" % res.get("status"))
    dts = [results[c["mark"]]["dt"] for c in cases if c["mark"] in results]
    grow = [results[c["mark"]]["rss1"] - results[c["mark"]]["rss0"] for c in cases if c["mark"] in results]
    ctx.extra["max_request_wall_s"] = round(max(dts), 4) if dts else None
    ctx.extra["max_peak_rss_growth_kb"] = max(grow) if grow else None
    ctx.extra["largest_body_bytes"] = max(len(c["data"]) for c in cases)
    ctx.extra["limits"] = dict(wall_s=TIME_LIMIT_S, peak_rss_growth_kb=RSS_LIMIT_KB)
    # ---------------------------------------------------------------- 3. monitors
    found = evaluate(ctx, base, decoy, reqs, cases, results, windows)
    ctx.extra["monitor_failures"] = len(found)
    ctx.log("monitors done: %d failures" % len(found))
    for what, c, res in found[:3]:
        ctx.violation("C19 %s %s (%s, %s): %s" % (c["method"], c["path"], c["kind"], c["charset"], what), replay_of(c, res))
    if ctx.extra.get("restore_mismatch"):
        ctx.notes.append("harness: the store was not back at the baseline after %d restore requests" % len(ctx.extra["restore_mismatch"]))
    # ---------------------------------------------------------------- 3b. histories on one instance, configuration dimension
    hcases, hres = history_check(ctx, base, decoy)
    ctx.log("history stream done")
    debug_check(ctx, base, decoy)
    ctx.log("configuration stream done")
    scaling_check(ctx, base, decoy)
    ctx.log("size-scaling stream done")
    found = found or [v for v in ctx.violations]
    # ---------------------------------------------------------------- 2. correspondence, evaluated in Coq
    fd = forbid_dtd_in_source()
    ctx.extra["forbid_dtd_in_source"] = fd
    good = [c for c in cases if c["mark"] in results]
    pairs = [(c, expected_tuple(c, results[c["mark"]])) for c in good]
    pairs += [(c, expected_tuple(c, hres[c["mark"]])) for c in hcases if c["a"] is not None and c["mark"] in hres]
    res_of = {id(c): results[c["mark"]] for c in good}
    res_of.update({id(c): hres[c["mark"]] for c in hcases if c["mark"] in hres})
    fdt = "true" if fd else "false"
    groups, order = {}, []
    for i, (c, exp) in enumerate(pairs):
        k = (id(c["a"]), c["method"])
        if k not in groups:
            groups[k] = []
            order.append(k)
        groups[k].append(i)
    ctx.extra["correspondence_groups"] = len(order)

    def enc_group(idxs):
        c0 = pairs[idxs[0]][0]
        vs = []
        for i in idxs:
            c, exp = pairs[i]
            rs = "[" + ";".join("(%s, %d)" % (X.e_str(n), code) for n, code, _ in c["dres"]) + "]"
            ct = "(@None (list N))" if c["named"] is None else "(Some %s)" % X.e_str(c["named"])
            vs.append("(%s, %s, %s)" % (ct, rs, enc_out(exp)))
        return "(%s, %s, %s, [%s])" % (X.COQ_METHOD[c0["method"]], X.e_attack(c0["a"]), X.ROOTKIND[c0["a"]["rootkind"]], ";".join(vs))
    gbad = ctx.diff_cases("c19_corr", HEADER, "(corr_group %s)" % fdt, [(groups[k], True) for k in order], enc_group,
                          core.enc_bool, "Bool.eqb", shard=30)
    bad = None
    if gbad is not None:
        bad = []
        if gbad:
            # locate the disagreeing variants of the disagreeing groups
            sub = [i for g in gbad for i in groups[order[g]]]
            b2 = ctx.diff_cases("c19_corr1", HEADER, "(corr_case %s)" % fdt, [pairs[i] for i in sub], enc_in, enc_out, "corr_eqb", shard=80)
            bad = [sub[j] for j in (b2 or [])] or [sub[0]]
    if bad is not None:
        ok = not bad
        detail = ""
        if bad:
            c, exp = pairs[bad[0]]
            detail = "model differs from implementation on %d cases, first: %s %s kind=%s charset=%s observed=%r" % (
                len(bad), c["method"], c["path"], c["kind"], c["charset"], exp[3:])
            ctx.extra["disagreements"] = [dict(method=pairs[b][0]["method"], kind=pairs[b][0]["kind"], charset=pairs[b][0]["charset"],
                                               observed=list(pairs[b][1][3:]), body=pairs[b][0]["text"][:300]) for b in bad[:5]]
        ctx.obligation("correspondence:reject-model", ok, detail)
        if bad and not found:
            # the disagreeing case is the failing input (the monitors saw nothing wrong with it)
            c, exp = pairs[bad[0]]
            ctx.violation("C19 model / implementation disagree on %s %s (%s, %s): observed %r" % (
                c["method"], c["path"], c["kind"], c["charset"], exp[3:]), replay_of(c, res_of[id(c)]))


# ---------------------------------------------------------------------------------------------- request histories
def setup_reqs():
    out = [dict(method="PROPFIND", path="/u/", user="u", aux=True),
           dict(method="MKCALENDAR", path="/u/cal/", user="u", body=MKCAL.encode(), ctype="text/xml; charset=utf-8", aux=True),
           dict(method="PUT", path="/u/cal/e1.ics", user="u", body=EVENT.encode(), ctype="text/calendar; charset=utf-8", aux=True)]
    for i, r in enumerate(out):
        r["mark"] = "s%d" % i
    return out


def build_history(ctx, decoy):
    """Request HISTORIES on one Application instance: the same bytes again and again, under different declared charsets,
    hostile readings before and after a harmless reading of the same bytes was accepted."""
    rng = ctx.rng
    reqs, cases = setup_reqs(), []
    group = [0]

    def send(m, a, text, data, named, kind, label, declares, restore):
        idx = len(cases)
        ctype = "text/xml; charset=%s" % named if named else "text/xml"
        path = "/u/cal/" if m in ("PROPFIND", "PROPPATCH", "REPORT") else "/u/k%d/" % idx
        mark = "c%d" % idx
        names = ([named] if named else []) + ["utf-8", "iso8859-1"]
        dres = decode_results(data, names, text) if a is not None else []
        reqs.append(dict(method=m, path=path, user="u", body=data, ctype=ctype, mark=mark, group=group[0]))
        cases.append(dict(idx=idx, mark=mark, method=m, path=path, kind=kind, charset=label, named=named, a=a, text=text, data=data,
                          ctype=ctype, dres=dres, declares=declares, group=group[0]))
        if restore:
            if m in ("MKCOL", "MKCALENDAR"):
                reqs.append(dict(method="DELETE", path=path, user="u", aux=True, mark="r%d" % idx, group=group[0]))
            elif m == "PROPPATCH":
                reqs.append(dict(method="PROPPATCH", path=path, user="u", body=RESTORE.encode(), ctype="text/xml; charset=utf-8",
                                 aux=True, mark="r%d" % idx, group=group[0]))

    n = 0
    methods_rot = 0
    for codec in X.TRANSFORMS:
        for m in (X.METHODS if not ctx.quick else [X.METHODS[(2 * methods_rot) % 5], X.METHODS[(2 * methods_rot + 1) % 5]]):
            n += 1
            group[0] += 1
            a, data, raw = X.polyglot(m, codec, n, depth=rng.choice([2, 3, 5]), fan=rng.choice([3, 10]))
            hostile = X.render(a)
            for step in ("T", "utf-8", "T", "iso-8859-1", "T", "utf-16", None, "T", "T"):
                if step == "T":
                    send(m, a, hostile, data, codec, "polyglot-" + codec, "as-" + codec, True, False)
                else:
                    # the harmless reading (or, for utf-16, whatever decode_request makes of it): not a term of the grammar
                    send(m, None, raw, data, step, "polyglot-" + codec, "as-%s" % step, False, True)
        methods_rot += 1
    kinds = list(dict.fromkeys(X.HOSTILE_KINDS))
    for i, k in enumerate(kinds):
        m = X.METHODS[i % 5]
        n += 1
        group[0] += 1
        a = X.gen_attack(random.Random(rng.randrange(10**9)), m, k, decoy, 1000 + n, force_decl=("pi", "xml", 'version="1.0"'))
        text = X.render(a)
        if not text.isascii() or "+" in text or "\\" in text:
            continue
        data = text.encode("ascii")
        for named in ("utf-8", "utf-8", "iso-8859-1", "utf-7", "utf-16", None, "utf-8"):
            send(m, a, text, data, named, k, "repeat-%s" % named, True, False)
    for r in reqs:
        r.setdefault("group", 0)
    return reqs, cases


def history_check(ctx, base, decoy):
    reqs, cases = build_history(ctx, decoy)
    res_h, win_h, out = run_driver(ctx, base, reqs, timeout=900, tag="-hist")
    res_f, _, out2 = run_driver(ctx, base, reqs, timeout=900, tag="-fresh", strace=False, fresh=True)
    if res_h is None or res_f is None:
        ctx.obligation("history:driver-ran", False, ((out or "") + (out2 or ""))[-1500:])
        return [], []
    ctx.obligation("history:driver-ran", True)
    found = evaluate(ctx, base, decoy, reqs, cases, res_h, win_h, tag="-hist")
    seen = {c["mark"] for _, c, _ in found}

    def sig(res):
        st = res.get("status")
        return (st, (res.get("body") or "") if st in (400, 408, 500) else "", res.get("dump_nc"))
    # the rule: inert is per request -- response class and store effect of request k of a history equal those of the same
    # request sent to a fresh instance over the same store
    for c in cases:
        a, b = res_h.get(c["mark"]), res_f.get(c["mark"])
        ctx.case(("hist", c["group"], c["idx"]), nontrivial=True)
        ctx.count("history:" + c["charset"].split("-")[0])
        if a is None or b is None:
            continue
        if sig(a) != sig(b) and c["mark"] not in seen:
            found.append(("the verdict depends on earlier requests: after the history status %s%s, on a fresh instance status %s%s" % (
                a.get("status"), "" if a.get("dump_nc") == b.get("dump_nc") else " (store differs)", b.get("status"),
                " %r" % (b.get("body") or "")[:60]), c, a))
    ctx.extra["history_requests"] = len(cases)
    ctx.extra["history_monitor_failures"] = len(found)
    by_group = {}
    for r in reqs:
        by_group.setdefault(r.get("group", 0), []).append(r)
    for what, c, res in found[:2]:
        hist = []
        for r in by_group.get(c["group"], []):
            hist.append(dict(method=r["method"], path=r["path"], ctype=r.get("ctype"), body_b64=b64(r["body"]) if r.get("body") is not None else None))
            if r["mark"] == c["mark"]:
                break
        ctx.violation("C19 history %s %s (%s, %s): %s" % (c["method"], c["path"], c["kind"], c["charset"], what),
                      replay_of(c, res, dict(history=hist, note="./check C19 --replay <this file> sends the history to ONE instance and "
                                                           "the last request to a fresh one, and prints both outcomes")))
    return cases, res_h


# ---------------------------------------------------------------------------------------------- configuration dimension
ALLOC_SLACK, ALLOC_PER_BYTE = 256 * 1024, 16
LOG_SLACK, LOG_PER_BYTE = 16 * 1024, 8


def debug_check(ctx, base, decoy):
    """[logging] level = debug with request_content_on_debug / response_content_on_debug / bad_put_request_content /
    request_header_on_debug switched on: a hostile request must cost about what it costs at the default configuration --
    allocation (tracemalloc peak) and log volume are compared with the same request on a default instance."""
    reqs, cases = setup_reqs(), []
    serial = 5000

    def send(m, a, kind):
        idx = len(cases)
        text = X.render(a)
        data = text.encode("utf-8")
        path = "/u/cal/" if m in ("PROPFIND", "PROPPATCH", "REPORT") else "/u/d%d/" % idx
        mark = "c%d" % idx
        reqs.append(dict(method=m, path=path, user="u", body=data, ctype="text/xml; charset=utf-8", mark=mark))
        cases.append(dict(idx=idx, mark=mark, method=m, path=path, kind=kind, charset="utf-8", named="utf-8", a=a, text=text, data=data,
                          ctype="text/xml; charset=utf-8", dres=[], declares=True))
    # warm-up (unmeasured in effect: linecache, lazy imports, first traceback)
    send("PROPFIND", X.lol_attack("PROPFIND", 1, 1, serial), "warm-up")
    send("PROPPATCH", X.lol_attack("PROPPATCH", 1, 1, serial), "warm-up")
    for i, k in enumerate(dict.fromkeys(X.HOSTILE_KINDS)):
        serial += 1
        m = X.METHODS[i % 5]
        send(m, X.gen_attack(random.Random(ctx.rng.randrange(10**9)), m, k, decoy, serial), k)
    for (d, k) in ((3, 10), (5, 10), (6, 10), (12, 10)):
        for m in X.METHODS:
            serial += 1
            send(m, X.lol_attack(m, d, k, serial), "lol-%d-%d" % (d, k))
    res_d, _, out = run_driver(ctx, base, reqs, timeout=600, tag="-cfg0", strace=False, measure=True)
    res_g, _, out2 = run_driver(ctx, base, reqs, timeout=600, tag="-cfg1", strace=False, measure=True, mode="debug")
    if res_d is None or res_g is None:
        ctx.obligation("config:driver-ran", False, ((out or "") + (out2 or ""))[-1500:])
        return
    ctx.obligation("config:driver-ran", True)
    found = evaluate(ctx, base, decoy, reqs, cases, res_g, {}, tag="-cfg1", syscalls=False)
    seen = {c["mark"] for _, c, _ in found}
    worst_alloc = worst_log = 0
    for c in cases:
        if c["kind"] == "warm-up":
            continue
        a, g = res_d.get(c["mark"]), res_g.get(c["mark"])
        ctx.case(("cfg", c["kind"], c["method"], X.fingerprint(c["text"])), nontrivial=True)
        ctx.count("config-debug:" + c["kind"].split("-")[0])
        if a is None or g is None:
            continue
        n = len(c["data"])
        what = []
        if a.get("status") != g.get("status"):
            what.append("status %s at the default configuration, %s with debug logging" % (a.get("status"), g.get("status")))
        extra_alloc = g.get("alloc_peak", 0) - a.get("alloc_peak", 0)
        worst_alloc = max(worst_alloc, extra_alloc)
        worst_log = max(worst_log, g.get("log_bytes", 0))
        if extra_alloc > ALLOC_SLACK + ALLOC_PER_BYTE * n:
            what.append("with debug logging the request allocates %d bytes more than at the default configuration (body %d bytes, "
                        "bound %d)" % (extra_alloc, n, ALLOC_SLACK + ALLOC_PER_BYTE * n))
        if g.get("log_bytes", 0) > LOG_SLACK + LOG_PER_BYTE * n:
            what.append("%d bytes of log for a body of %d bytes (largest entry %d, bound %d)" % (
                g["log_bytes"], n, g.get("log_largest", 0), LOG_SLACK + LOG_PER_BYTE * n))
        if g.get("log_leak"):
            what.append("decoy content in the log")
        if what and c["mark"] not in seen:
            found.append(("; ".join(what), c, g))
    ctx.extra["config_debug_requests"] = len(cases) - 2
    ctx.extra["config_debug_max_extra_alloc_bytes"] = worst_alloc
    ctx.extra["config_debug_max_log_bytes"] = worst_log
    ctx.extra["config_debug_failures"] = len(found)
    for what, c, res in found[:2]:
        ctx.violation("C19 debug-logging configuration %s %s (%s): %s" % (c["method"], c["path"], c["kind"], what),
                      replay_of(c, res, dict(config="debug", note="./check C19 --replay <this file> sends the request to a default and to a "
                                                                   "debug-logging instance and prints allocation and log volume")))


# ---------------------------------------------------------------------------------------------- size scaling
CPU_SLACK_S, CPU_PER_BYTE_S = 0.25, 2.0e-7      # a refusal may cost a constant plus time linear in the size of the body
PAD_POSITIONS = ["leading-blanks", "leading-bom", "after-decl", "comment", "pi", "subset-space", "entity-value", "literal-uri",
                 "after-doctype", "root-text", "trailing"]


def padded_attack(method, position, size, n):
    """a small nested-expansion body with a run of `size` characters at one of the places where the grammar allows runs"""
    a = X.lol_attack(method, 3, 4, n)
    ws = (" \n\t\r" * (size // 4 + 1))[:size]
    if position == "leading-blanks":
        a["before"] = [("space", ws)]                       # no XML declaration: blanks in front of the DOCTYPE are legal
    elif position == "leading-bom":
        a["before"] = [("space", "\ufeff" * size)]          # not legal XML after the first one: refused as malformed or hostile
    elif position == "after-decl":
        a["before"] = a["before"] + [("space", ws)]
    elif position == "comment":
        a["before"] = a["before"] + [("comment", "c" * size)]
    elif position == "pi":
        a["before"] = a["before"] + [("pi", "t", "d" * size)]
    elif position == "subset-space":
        a["doctype"]["subset"] = [("space", ws)] + a["doctype"]["subset"]
    elif position == "entity-value":
        a["doctype"]["subset"] = [("entity", ("internal", "big", (False, [("r", "v", size)])))] + a["doctype"]["subset"]
    elif position == "literal-uri":
        a["doctype"]["ext"] = ("system", (False, [("r", "u", size)]))
    elif position == "after-doctype":
        a["after"] = [("space", ws)]
    elif position == "root-text":
        a["root"] = X.root_for(method, "", "", tail_pieces=[("r", "t", size)], tag_hint="z%d" % n)
    elif position == "trailing":
        a["root"] = a["root"] + [("s", ws)]
    a["kind"] = "padded-" + position
    return a


def scaling_check(ctx, base, decoy):
    """bounded rejection, as a function of the size: the same hostile body with a run of N characters at each place where the
    grammar allows a run, N growing geometrically; CPU time of the request (process_time, robust against load) must stay
    under a constant plus a linear term, and must not grow faster than linearly from one size to the next."""
    sizes = [1 << 16, 1 << 18, 1 << 20] + ([] if ctx.quick else [1 << 22])
    reqs, cases = setup_reqs(), []
    n = 9000
    for pi, pos in enumerate(PAD_POSITIONS):
        for si, size in enumerate(sizes):
            n += 1
            m = X.METHODS[(pi + si) % 5]
            a = padded_attack(m, pos, size, n)
            text = X.render(a)
            cs = "utf-16" if (pi + si) % 4 == 3 else "utf-8"
            data = text.encode(cs)
            idx = len(cases)
            path = "/u/cal/" if m in ("PROPFIND", "PROPPATCH", "REPORT") else "/u/z%d/" % idx
            mark = "c%d" % idx
            ctype = "text/xml; charset=%s" % cs
            reqs.append(dict(method=m, path=path, user="u", body=data, ctype=ctype, mark=mark))
            cases.append(dict(idx=idx, mark=mark, method=m, path=path, kind=a["kind"], charset=cs, named=cs, a=a, text=text, data=data,
                              ctype=ctype, dres=[], declares=True, size=size, pos=pos))
    res, _, out = run_driver(ctx, base, reqs, timeout=1200, tag="-size", strace=False)
    if res is None:
        ctx.obligation("scaling:driver-ran", False, (out or "")[-1500:])
        return
    ctx.obligation("scaling:driver-ran", True)
    saved = globals()["TIME_LIMIT_S"]
    globals()["TIME_LIMIT_S"] = 1e9            # wall time is judged by the size-dependent CPU bound below
    try:
        found = evaluate(ctx, base, decoy, reqs, cases, res, {}, tag="-size", syscalls=False)
    finally:
        globals()["TIME_LIMIT_S"] = saved
    seen = {c["mark"] for _, c, _ in found}
    prev = {}
    worst = 0.0
    for c in cases:
        r = res.get(c["mark"])
        ctx.case(("size", c["pos"], c["size"], c["method"]), nontrivial=True)
        ctx.count("padded:" + c["pos"])
        if r is None:
            continue
        cpu, nb = r.get("cpu", 0.0), len(c["data"])
        worst = max(worst, cpu / nb * 1e9)
        what = []
        bound = CPU_SLACK_S + CPU_PER_BYTE_S * nb
        if cpu > bound:
            what.append("refusing a body of %d bytes (%s of %d characters) took %.2f s of CPU (bound %.2f s = %.2f + %d ns/byte)" % (
                nb, c["pos"], c["size"], cpu, bound, CPU_SLACK_S, CPU_PER_BYTE_S * 1e9))
        p = prev.get(c["pos"])
        if p is not None and p[1] > 0.05 and cpu / p[1] > 2.0 * (nb / p[0]):
            what.append("CPU time grows faster than the size: %.3f s for %d bytes, %.3f s for %d bytes" % (p[1], p[0], cpu, nb))
        prev[c["pos"]] = (nb, cpu)
        if what and c["mark"] not in seen:
            found.append(("; ".join(what), c, r))
    found.sort(key=lambda x: (x[1]["size"], x[1]["idx"]))       # the smallest failing size makes the quickest replay
    ctx.extra["scaling_requests"] = len(cases)
    ctx.extra["scaling_worst_ns_per_byte"] = round(worst, 1)
    ctx.extra["scaling_failures"] = len(found)
    for what, c, r in found[:2]:
        rp = replay_of(c, r, dict(padded=dict(position=c["pos"], size=c["size"], n=9000 + c["idx"] + 1),
                                  note="./check C19 --replay <this file> rebuilds the padded body, sends it and prints the CPU time"))
        rp.pop("body_b64", None)              # megabytes; rebuilt from (position, size)
        ctx.violation("C19 size scaling %s %s (%s x %d, %s): %s" % (c["method"], c["path"], c["pos"], c["size"], c["charset"], what), rp)


# ---------------------------------------------------------------------------------------------- replay
def replay(ctx, path):
    data = json.load(open(path))
    rp = data.get("replay", data)
    if rp.get("padded"):
        base = tempfile.mkdtemp(prefix="rv-c19r-")
        try:
            pd = rp["padded"]
            a = padded_attack(rp["method"], pd["position"], pd["size"], pd["n"])
            body = X.render(a).encode(rp.get("charset") or "utf-8")
            reqs = setup_reqs() + [dict(method=rp["method"], path=rp["path"], user="u", body=body, ctype=rp.get("ctype"), mark="c0")]
            res, _, out = run_driver(ctx, base, reqs, 300, tag="-size", strace=False)
            r = res["c0"]
            bound = CPU_SLACK_S + CPU_PER_BYTE_S * len(body)
            print("body of %d bytes (%s x %d): status %s, %.3f s CPU, %.3f s wall (bound %.2f s)%s" % (
                len(body), pd["position"], pd["size"], r.get("status"), r.get("cpu", 0), r.get("dt", 0), bound,
                " -- " + r["error"] if r.get("error") else ""))
            bad = r.get("cpu", 0) > bound or r.get("status") not in (400, 500)
            print("VERDICT: violated: the refusal is not bounded by a linear function of the size" if bad else "VERDICT: ok")
            return 1 if bad else 0
        finally:
            shutil.rmtree(base, ignore_errors=True)
    if "body_b64" not in rp:
        print(json.dumps(data, indent=1)[:4000])
        return 0
    base = tempfile.mkdtemp(prefix="rv-c19r-")
    try:
        decoy = os.path.join(base, "decoy-c19.txt")
        with open(decoy, "w") as f:
            f.write(SECRET + "\n")
        body = base64.b64decode(rp["body_b64"])
        # the decoy path of the original run is gone: point file: references at the new decoy
        m = re.search(rb"/tmp/rv-c19-[A-Za-z0-9_]+/decoy-c19\.txt", body)
        if m:
            body = body.replace(m.group(0), decoy.encode())
        def fix(b):
            mm = re.search(rb"/tmp/rv-c19-[A-Za-z0-9_]+/decoy-c19\.txt", b)
            return b.replace(mm.group(0), decoy.encode()) if mm else b
        last = dict(method=rp["method"], path=rp["path"], user=rp.get("user", "u"), body=body, ctype=rp.get("ctype"), mark="c0")
        if rp.get("config") == "debug":
            reqs = setup_reqs() + [last]
            r0, _, _ = run_driver(ctx, base, reqs, 300, tag="-cfg0", strace=False, measure=True)
            r1, _, _ = run_driver(ctx, base, reqs, 300, tag="-cfg1", strace=False, measure=True, mode="debug")
            a, g = r0["c0"], r1["c0"]
            n = len(body)
            print("default configuration: status %s, tracemalloc peak %d bytes, log %d bytes" % (a["status"], a["alloc_peak"], a["log_bytes"]))
            print("debug logging:         status %s, tracemalloc peak %d bytes, log %d bytes (body %d bytes)" % (
                g["status"], g["alloc_peak"], g["log_bytes"], n))
            bad = (g["alloc_peak"] - a["alloc_peak"] > ALLOC_SLACK + ALLOC_PER_BYTE * n or g["log_bytes"] > LOG_SLACK + LOG_PER_BYTE * n
                   or a["status"] != g["status"] or g.get("log_leak"))
            print("VERDICT: violated: cost of the refused request is amplified by the logging configuration" if bad else "VERDICT: ok")
            return 1 if bad else 0
        if rp.get("history"):
            hist = [dict(method=h["method"], path=h["path"], user="u", ctype=h.get("ctype"), mark="h%d" % i,
                         body=fix(base64.b64decode(h["body_b64"])) if h.get("body_b64") else None) for i, h in enumerate(rp["history"])]
            r1, _, _ = run_driver(ctx, base, setup_reqs() + hist, 300, tag="-hist", strace=False)
            r2, _, _ = run_driver(ctx, base, setup_reqs() + hist, 300, tag="-fresh", strace=False, fresh=True)
            for h in hist:
                print("%-10s %-12s %-36s one instance: %s   fresh instances: %s" % (
                    h["method"], h["path"], h.get("ctype"), r1[h["mark"]]["status"], r2[h["mark"]]["status"]))
            a, b_ = r1[hist[-1]["mark"]], r2[hist[-1]["mark"]]
            bad = (a["status"], a["dump_nc"]) != (b_["status"], b_["dump_nc"])
            print("VERDICT: violated: the outcome of the last request depends on the requests before it" if bad else "VERDICT: ok")
            return 1 if bad else 0
        reqs = setup_reqs() + [last]
        results, windows, out = run_driver(ctx, base, reqs, timeout=300)
        if results is None:
            print("driver failed:", out[-1500:])
            return 1
        res = results["c0"]
        declares = b"<!ENTITY" in body or "<!ENTITY" in body.decode("utf-16", "ignore")
        c = dict(idx=0, mark="c0", method=rp["method"], path=rp["path"], kind=rp.get("kind"), charset=rp.get("charset"),
                 declares=declares, data=body, ctype=rp.get("ctype"),
                 text=body.decode("utf-16" if body[:2] in (b"\xff\xfe", b"\xfe\xff") else "latin-1", "replace"))
        found = evaluate(ctx, base, decoy, reqs, [c], results, windows, record=False)
        print("status %s, %.3f s, peak RSS growth %d kB, response %r" % (
            res.get("status"), res.get("dt", 0), res.get("rss1", 0) - res.get("rss0", 0), (res.get("body") or "")[:120]))
        for what, _, _ in found:
            print("VERDICT: violated:", what)
        if not found:
            print("VERDICT: ok (rejected / handled without touching anything it must not)")
        return 1 if found else 0
    finally:
        shutil.rmtree(base, ignore_errors=True)
