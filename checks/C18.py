"""C18 -- Every name the server hands out or accepts round-trips through URL encoding.

1. proof: Props/C18.v over Model/Url.v and the regenerated Gen/UrlGen.v (make_href, tie T)
2. correspondence (tie K)
   a. the models of CPython's UTF-8 codec, urllib.parse.quote / unquote / urlparse against CPython
      (exhaustive short strings over a delimiter alphabet, all 1-3 byte sequences at the UTF-8 boundaries, random)
   b. the models of Radicale's reading sites against the real code: RequestHandler.get_environ, the prefix
      selection / stripping / well-known part of _handle_request (observed through a probe method), multiget href
      decoding (observed in the REPORT answer), Destination decoding (observed on the storage folder),
      make_href and the Location headers
3. monitors: the property itself on the real application: every href / Location / principal property the server
   emits for hostile names and prefixes is well-formed and, sent back as request line, multiget href and MOVE
   Destination, reaches the very resource it described.
"""
import json
import os
import posixpath
import re
import urllib.parse
import xml.etree.ElementTree as ET

from vlib import core
from vlib import x_c18 as X
from vlib.core import enc_bool, enc_opt


def enc_str(s):
    return "(@nil N)" if not s else core.enc_str(s)


def enc_bytes(b):
    return "(@nil N)" if not b else core.enc_bytes(b)


HEADER = """From Coq Require Import List NArith Bool String.
Import ListNotations.
Require Import RV.Lib.PyStr RV.Model.Path RV.Model.Url.
Open Scope N_scope.
Definition eq_pair (a b : pystr * pystr) := eqs (fst a) (fst b) && eqs (snd a) (snd b).
Definition up3 (s : pystr) : option (pystr * (pystr * pystr)) :=
  match urlparse s with UOk u => Some (u_scheme u, (u_netloc u, u_path u)) | UValueError => None | UOutside => Some ([0], ([0], [0])) end.
Definition eq_up3 (a b : option (pystr * (pystr * pystr))) :=
  match a, b with
  | Some (x1, (x2, x3)), Some (y1, (y2, y3)) => eqs x1 [0] || (eqs x1 y1 && eqs x2 y2 && eqs x3 y3)
  | Some (x1, _), None => eqs x1 [0]
  | None, None => true
  | _, _ => false
  end.
(* canonical text of a decoding result *)
Definition show_dres (base : pystr) (d : dres) : pystr :=
  match d with
  | DOk p => match make_href base p with Some h => str "ok:" ++ h | None => str "ok-unencodable" end
  | DSkip => str "skip" | DRemote => str "remote" | DRaise => str "raise" | DOutside => str "outside"
  end.
Definition eq_dres (a b : pystr) := eqs a (str "outside") || eqs a b.
Definition show_front (f : front) : pystr :=
  match f with
  | FCall b p => str "call:" ++ b ++ str "|" ++ p
  | FRedirect (Some l) => str "redirect:" ++ l
  | FRedirect None => str "error"
  | FNotFound => str "404" | FBadRequest => str "400" | FInternalError => str "500"
  end.
Definition show_oo (r : option (option pystr)) : pystr :=
  match r with None => str "none" | Some None => str "error" | Some (Some l) => str "loc:" ++ l end.
Definition up3s (s : pystr) : option (pystr * (pystr * pystr)) :=
  match urlsplit s with UOk u => Some (u_scheme u, (u_netloc u, u_path u)) | UValueError => None | UOutside => Some ([0], ([0], [0])) end.
(* b = what was observed on the implementation: "ok:<href>", "coll:<href of the collection, no trailing slash>"
   (the whole collection was selected: with or without trailing slash), "unobservable" (decoded, then refused by a
   storage rule), or the name of an outcome; a moved item shows its new path without a trailing slash *)
Definition run_dest (c : pystr * (pystr * pystr)) : pystr :=
  match decode_destination (fst c) (fst (snd c)) (snd (snd c)) with
  | DOk [47] => str "skip"      (* do_MOVE answers like "outside the prefix" when the target is the root collection *)
  | d => show_dres (fst (snd c)) d
  end.
Definition eq_dres_obs (a b : pystr) :=
  eqs a (str "outside") || (eqs b (str "unobservable") && startswith a (str "ok:")) || eqs a b
  || (startswith b (str "ok:") && eqs a (b ++ str "/"))
  || (startswith b (str "coll:") && (eqs a (str "ok:" ++ skipn 5 b) || eqs a (str "ok:" ++ skipn 5 b ++ str "/"))).
Record fcase := { f_cfg : pystr; f_rp : bool; f_x : option pystr; f_s : option pystr; f_pi : pystr }.
Definition run_front (c : fcase) : pystr := show_front (front_end (f_cfg c) (f_rp c) (f_x c) (f_s c) (f_pi c)).
Definition run_get (c : fcase) : pystr :=
  match front_end (f_cfg c) (f_rp c) (f_x c) (f_s c) (f_pi c) with
  | FCall b p => show_oo (get_location b p (f_pi c))
  | f => show_front f
  end.
Definition run_multiget (bh : pystr * pystr) : pystr := show_dres (fst bh) (decode_multiget (fst bh) (snd bh)).
Definition show_os (o : option pystr) : pystr := match o with Some h => str "ok:" ++ h | None => str "error" end.
"""


def enc_pair(ab):
    return "(%s, %s)" % (enc_str(ab[0]), enc_str(ab[1]))


def py_up3(s):
    """scheme, netloc, path of urlparse, None for ValueError; the model may answer 'outside' (see eq_up3)."""
    try:
        u = urllib.parse.urlparse(s)
        return (u.scheme, u.netloc, u.path)
    except ValueError:
        return None


def enc_up3(v):
    if v is None:
        return "None"
    return "(Some (%s, (%s, %s)))" % (enc_str(v[0]), enc_str(v[1]), enc_str(v[2]))


def py_utf8_encode(s):
    try:
        return s.encode("utf-8")
    except UnicodeEncodeError:
        return None


def py_quote(s):
    try:
        return urllib.parse.quote(s)
    except UnicodeEncodeError:
        return None


def enc_optbytes(b):
    return "None" if b is None else "(Some %s)" % enc_bytes(b)


PLAIN_CHARS = set("ABCDEFGHIJKLMNOPQRSTUVWXYZabcdefghijklmnopqrstuvwxyz0123456789_.-~/")


def nontrivial_input(i):
    """Non-trivial = the input has at least one character (byte) that quote() would change, or a '%'."""
    if isinstance(i, bytes):
        return any(chr(b) not in PLAIN_CHARS for b in i)
    if isinstance(i, str):
        return any(c not in PLAIN_CHARS for c in i)
    if isinstance(i, (tuple, list)):
        return any(nontrivial_input(x) for x in i if isinstance(x, (str, bytes, tuple, list)))
    return False


def run_suite(ctx, tag, fn, cases, ie, oe, eqb, key=None):
    """One differential suite; records obligation and coverage.  Returns the list of bad indices (or None)."""
    ctx.count("cases:" + tag, len(cases))
    for i, o in cases:
        k = key(i) if key else (i if isinstance(i, (str, bytes)) else repr(i))
        ctx.case((tag, k), nontrivial=nontrivial_input(i))
    bad = ctx.diff_cases("c18_" + tag, HEADER, fn, cases, ie, oe, eqb, shard=900)
    if bad is None:
        return None
    ok = not bad
    ctx.obligation("correspondence:%s" % tag, ok,
                   "" if ok else "model differs from implementation on %d cases, first: %r" % (len(bad), cases[bad[0]]))
    if bad:
        ctx.extra.setdefault("disagreements", {})[tag] = [repr(cases[b]) for b in bad[:5]]
    return bad


# ------------------------------------------------------------------------------- 2a. CPython functions
def stdlib_suites(ctx):
    rng = ctx.rng
    alpha = ["/", "%", "4", "1", "a", "F", "?", "#", ";", ":", " ", "\u00e9", "z"]
    L = ctx.n(3, 4)
    small = list(X.small_strings(alpha, L))
    rnd = [X.rand_url(rng, 12) for _ in range(ctx.n(1000, 20000))]
    names = [X.rand_component(rng, 10, allow_dot_start=True) for _ in range(ctx.n(600, 10000))]
    # every code point class, incl. surrogates (quote raises) and the boundaries of the UTF-8 lengths
    cps = [0, 1, 0x1f, 0x20, 0x25, 0x2f, 0x7e, 0x7f, 0x80, 0x7ff, 0x800, 0xfff, 0x1000, 0xd7ff, 0xd800, 0xdbff, 0xdc00, 0xdfff,
           0xe000, 0xfffd, 0xffff, 0x10000, 0x3ffff, 0x40000, 0x10ffff]
    cp_strings = [chr(c) for c in cps] + [chr(a) + chr(b) for a in cps[:8] for b in cps[8:]] + \
                 [chr(rng.randrange(0x110000)) + chr(rng.randrange(0x110000)) for _ in range(ctx.n(300, 5000))]
    strs = small + rnd + names + cp_strings

    # bytes: all 1- and 2-byte sequences over the boundary bytes, 3/4-byte ones sampled + random utf8-ish
    bb = [0x00, 0x41, 0x7f, 0x80, 0x8f, 0x90, 0x9f, 0xa0, 0xbf, 0xc0, 0xc1, 0xc2, 0xdf, 0xe0, 0xe1, 0xec, 0xed, 0xee, 0xef, 0xf0,
          0xf1, 0xf3, 0xf4, 0xf5, 0xff]
    byte_cases = [bytes([a]) for a in range(256)] + [bytes([a, b]) for a in bb for b in bb]
    tri = [bytes([a, b, c]) for a in bb[9:] for b in bb[3:9] for c in bb[1:10]]
    quad = [bytes([a, b, c, d]) for a in bb[19:] for b in bb[3:9] for c in bb[3:10] for d in bb[1:10]]
    rng.shuffle(tri)
    rng.shuffle(quad)
    byte_cases += tri[:ctx.n(1200, len(tri))] + quad[:ctx.n(800, len(quad))]
    byte_cases += [X.rand_bytes_utf8ish(rng) for _ in range(ctx.n(1000, 15000))]

    run_suite(ctx, "utf8_encode", "utf8_encode", [(s, py_utf8_encode(s)) for s in cp_strings + names[:300]],
              enc_str, enc_optbytes, "eq_opt_str")
    run_suite(ctx, "utf8_decode", "utf8_decode", [(b, b.decode("utf-8", "replace")) for b in byte_cases],
              enc_bytes, enc_str, "eqs", key=lambda b: b.hex())
    run_suite(ctx, "quote", "quote", [(s, py_quote(s)) for s in strs], enc_str, enc_opt(enc_str), "eq_opt_str")
    run_suite(ctx, "quote_from_bytes", "quote_from_bytes",
              [(b, urllib.parse.quote_from_bytes(b)) for b in byte_cases[:ctx.n(1500, 20000)]],
              enc_bytes, enc_str, "eqs", key=lambda b: b.hex())
    # unquote: strings as they are, plus quoted forms with damage (lower-case hex, truncated escapes)
    unq = list(strs)
    for s in names + rnd[:500]:
        q = py_quote(s)
        if q is None:
            continue
        unq.append(q)
        if rng.random() < 0.5:
            unq.append(q.lower())
        if q and rng.random() < 0.5:
            i = rng.randrange(len(q))
            unq.append(q[:i] + q[i + 1:])
    for b in byte_cases[:ctx.n(1800, 20000)]:
        unq.append("".join("%%%02X" % x for x in b))
        unq.append("".join(rng.choice(["%%%02x" % x, chr(x) if x < 128 else "%%%02X" % x]) for x in b))
    run_suite(ctx, "unquote", "unquote", [(s, urllib.parse.unquote(s)) for s in unq], enc_str, enc_str, "eqs")
    ascii_runs = [s for s in unq if s.isascii()][:ctx.n(3000, 30000)]
    run_suite(ctx, "unquote_to_bytes", "unquote_to_bytes",
              [(s.encode("ascii"), urllib.parse.unquote_to_bytes(s)) for s in ascii_runs], enc_bytes, enc_bytes, "eqs",
              key=lambda b: b.hex())
    # urlparse: scheme / netloc / path
    urls = small + rnd
    hosts = ["127.0.0.1", "localhost:5232", "h", "u:p@h:80", "h:", "h:x", "[::1]", "[::1", "::1]", "h\u00e9", "", "a@b@c:1", "H:443"]
    for _ in range(ctx.n(800, 10000)):
        urls.append(rng.choice(["http://", "https://", "//", "HtTp://", "ftp://", "x-y+z.1://", "1a://", "mailto:", "", "http:/", "http:",
                                 " http://", "ht\ntp://", "tel://", "dav://"])
                    + rng.choice(hosts) + X.rand_url(rng, 8))
    run_suite(ctx, "urlparse", "up3", [(u, py_up3(u)) for u in urls], enc_str, enc_up3, "eq_up3")
    run_suite(ctx, "urlsplit", "up3s", [(u, py_up3s(u)) for u in urls], enc_str, enc_up3, "eq_up3")
    ctx.samples.append(dict(function="unquote", input="%C3%A9%zz%c3", output=urllib.parse.unquote("%C3%A9%zz%c3")))
    return strs, names


def py_up3s(s):
    try:
        u = urllib.parse.urlsplit(s)
        return (u.scheme, u.netloc, u.path)
    except ValueError:
        return None


# ------------------------------------------------------------------------------- 2b. Radicale's reading / emitting sites
CONF = {"auth": {"type": "none"}, "rights": {"type": "vlib.x_c18_rights"}, "web": {"type": "none"}}
HOST = "127.0.0.1"


def enc_fcase(c):
    cfg, rp, x, sn, pi = c
    return "{| f_cfg := %s; f_rp := %s; f_x := %s; f_s := %s; f_pi := %s |}" % (
        enc_str(cfg), enc_bool(rp), enc_opt(enc_str)(x), enc_opt(enc_str)(sn), enc_str(pi))


def front_env(c, method):
    cfg, rp, x, sn, pi = c
    env = {"REQUEST_METHOD": method, "PATH_INFO": pi}
    if x is not None:
        env["HTTP_X_SCRIPT_NAME"] = x
    if sn is not None:
        env["SCRIPT_NAME"] = sn
    if rp:
        env["HTTP_X_FORWARDED_FOR"] = "10.0.0.1"
    return env


def gen_front_cases(ctx, n):
    rng = ctx.rng
    prefixes = ["", "/radicale", "/my app", "/a/b", "/é", "/x%20y", "/.web", "/r"]
    broken = ["radicale", "/", "//", "/radicale/", "/radicale//", "r/", "/a//b", "/a/../b", "/a/./b", " /a"]
    paths = ["", "/", "//", "/u/", "/u/cal/", "/u/cal/a.ics", "/.web", "/.web/", "//.web", "/.web//", "/.web/x/../", "/.web/index.html",
             "/.well-known/caldav", "/.well-known/carddav/", "/foo/.well-known/caldav", "/.well-known", "/.well-known/foo",
             "/x/.well-known/", "/.well-known/caldav/x", "/u/../v/", "/u/./c", "/radicale", "/radicale/", "/radicale2/cal/",
             "/radicale/radicale/cal/", "/r", "/ralph/", "/my app/u/", "/my app", "/my apple/", "/a/b/c", "/a/bc", "/é/x", "/éx"]
    # PATH_INFO is text already: a path that reads as the bytes of another one under some codec of the request path
    # (UTF-8 / ISO-8859-1 / cp1252 / percent-encoding, both directions) is that very path, not the other one
    for p in ["/u/café.ics", "/é/x", "/my app/日本/", "/radicale/ß €"]:
        paths += [p.replace(n, t) for n in [c for c in p.split("/") if c] for k, t in X.codec_readings(n)]
    cases = []
    for cfg in ["", "/radicale", "/my app", "/r"]:
        for pi in paths:
            for rp in (False, True):
                for x in (None, "/radicale", "/a/b"):
                    cases.append((cfg, rp, x, None, pi))
    while len(cases) < n:
        cfg = rng.choice(["", "", "", "/radicale", "/my app", "/r"])
        rp = rng.random() < 0.5
        x = rng.choice([None, None] + prefixes + broken + [X.rand_prefix(rng)])
        sn = rng.choice([None, None] + prefixes + broken + [X.rand_prefix(rng)])
        base = rng.choice([cfg, x or "", sn or "", ""])
        tail = rng.choice(paths + ["/" + X.rand_component(rng) + rng.choice(["", "/"]), X.rand_url(rng, 6)])
        pi = rng.choice([tail, base + tail, base + tail, base, base.rstrip("/") + "x" + tail])
        if rng.random() < 0.15:
            # the whole path read under another codec pair
            rd = [t for k, t in X.codec_readings(pi.replace("/", "\x00")) if "\x00" in t or "/" not in pi]
            if rd:
                pi = rng.choice(rd).replace("\x00", "/")
        cases.append((cfg, rp, x, sn, pi))
    return cases


def impl_front(srvs, c, method):
    """Outcome of the real _handle_request for a front case: text in the format of show_front / show_oo."""
    from vlib.impl import Server
    cfg = c[0]
    if cfg not in srvs:
        conf = dict(CONF)
        conf["server"] = {"script_name": cfg}
        srv = Server(conf)
        srvs[cfg] = (srv, X.install_probe(srv))
    srv, seen = srvs[cfg]
    del seen[:]
    st, h, body = X.call_app(srv, front_env(c, method))
    return st, h, body, list(seen)


def front_suites(ctx):
    srvs = {}
    try:
        cases = gen_front_cases(ctx, ctx.n(1500, 20000))
        out_front, out_get = [], []
        for c in cases:
            st, h, body, seen = impl_front(srvs, c, "PROBE")
            if seen:
                o = "call:%s|%s" % (seen[0][0], seen[0][1])
            elif st == 301:
                o = "redirect:" + h.get("Location", "")
            else:
                o = {404: "404", 400: "400", 500: "500"}.get(st, "status-%d" % st)
            out_front.append((c, o))
            ctx.count("front:" + o.split(":")[0])
            st, h, body, seen = impl_front(srvs, c, "GET")
            if st in (301, 302):
                # the well-known redirect is 301 from _handle_request, the others come from get.py / web
                o2 = ("redirect:" if (o.startswith("redirect:")) else "loc:") + h.get("Location", "")
            elif st in (400, 500) and o in ("400", "500"):
                o2 = o
            elif st == 404 and o == "404":
                o2 = "404"
            else:
                o2 = "none"
            out_get.append((c, o2))
            ctx.count("get:" + o2.split(":")[0])
        run_suite(ctx, "front_end", "run_front", out_front, enc_fcase, enc_str, "eqs", key=repr)
        run_suite(ctx, "get_location", "run_get", out_get, enc_fcase, enc_str, "eqs", key=repr)
        ctx.samples.append(dict(site="_handle_request", case=repr(cases[-1]), outcome=out_front[-1][1]))
    finally:
        for srv, _ in srvs.values():
            srv.close()


def pathinfo_suite(ctx, strs):
    rng = ctx.rng
    targets = [s for s in strs if all(ord(ch) < 256 for ch in s)][:ctx.n(4000, 40000)]
    for _ in range(ctx.n(500, 10000)):
        p = "/" + "/".join(X.rand_component(rng) for _ in range(rng.randint(1, 3)))
        q = urllib.parse.quote(p)
        targets.append(rng.choice([q, q + "?x=%2F&y", q.lower(), q + "#f", p.encode("utf-8").decode("latin-1")]))
    run_suite(ctx, "pathinfo", "pathinfo_of_target", [(t, X.get_environ_only(t)) for t in targets], enc_str, enc_str, "eqs")


def make_href_suite(ctx):
    from radicale import xmlutils, pathutils
    rng = ctx.rng
    cases = []
    for _ in range(ctx.n(600, 20000)):
        base = X.rand_prefix(rng)
        p = pathutils.sanitize_path("/" + "/".join(X.rand_component(rng, allow_dot_start=True) for _ in range(rng.randint(0, 3)))
                                    + rng.choice(["", "/"]))
        if rng.random() < 0.05:
            p = p + "\ud800"      # a lone surrogate (file name that is not UTF-8): quote raises
        try:
            o = "ok:" + xmlutils.make_href(base, p)
        except UnicodeEncodeError:
            o = "error"
        cases.append(((base, p), o))
    run_suite(ctx, "make_href", "(fun bp => show_os (make_href (fst bp) (snd bp)))", cases, enc_pair, enc_str, "eqs", key=repr)


def multiget_suite(ctx):
    from vlib.impl import Server, event
    rng = ctx.rng
    n = ctx.n(700, 10000)
    names = ["a b.ics", "é;x?.ics"]
    import contextlib
    with contextlib.ExitStack() as stack:
        # the model does not take [encoding] request: the decoding of hrefs must not depend on it
        srvs = [stack.enter_context(X.fast_server(with_encoding(CONF, enc))) for enc in ("utf-8", "iso-8859-1")]
        for srv in srvs:
            srv.mkcol("/u/")
            srv.mkcalendar("/u/cal/")
            for i, nm in enumerate(names):
                assert srv.put("/u/cal/" + nm, event("mg%d" % i))[0] == 201
        cases = []
        fixed = ["/u/cal/a%20b.ics", "/u/cal/a b.ics", "/u/cal/%C3%A9%3Bx%3F.ics", "/u/cal/é;x?.ics", "/u/cal/é;x%3F.ics",
                 "/u/cal/a;b.ics", "/u/cal/a%3Bb.ics", "/u/cal/", "/u/cal", "/u/", "/", "", "http://h/u/cal/a%20b.ics",
                 "//h/u/cal/a%20b.ics", "/u/cal/a%2520b.ics", "/u/cal/a+b.ics", "/u/cal/x#y", "/u/cal/x%23y", "/u/cal/x?y", "/u/cal/x%3Fy",
                 "/u/cal/%2e%2e/x", "/u/cal/../x", "/u/cal/%2Fx", "/u/cal/x%2F", "/u/cal/x/", " /u/cal/x", "/u/cal/x ", "/u/cal/x\n",
                 "/u/cal/%ff", "/u/cal/%C3", "/u/cal/%zz", "/u/cal/%", "http://[::1/u/cal/x", "http://[::1]/u/cal/x", "/u/cal/;", "/u/cal/;x/y;z",
                 "/u/cal/x;y/", "http:/u/cal/x", "http:x", "a:b", "/u/cal/a:b", "u/cal/x", "mailto:u@h"]
        for k in range(n):
            base = rng.choice(["", "", "/radicale", "/my app", X.rand_prefix(rng)])
            if k < len(fixed):
                href = fixed[k]
                if base:
                    href = rng.choice([href, urllib.parse.quote(base) + href])
            else:
                r = rng.random()
                comp = rng.choice(names + [X.rand_component(rng)])
                if r < 0.5:
                    href = urllib.parse.quote(base + "/u/cal/" + comp)
                elif r < 0.7:
                    href = base + "/u/cal/" + comp                         # raw, unencoded
                elif r < 0.85:
                    href = rng.choice(["http://h", "https://x:1", "//h", ""]) + urllib.parse.quote(base) + X.rand_url(rng, 8)
                else:
                    href = X.rand_url(rng, 10)
            if base and rng.random() < 0.08:
                # a sibling of the prefix: /radicale2/... is not below /radicale
                sib = base + rng.choice(["2", "x", "%20", "-"])
                href = rng.choice([urllib.parse.quote(sib), sib]) + "/u/cal/" + urllib.parse.quote(rng.choice(names))
            if not href or not X.xml_ok(href) or not X.xml_ok(base):
                continue            # <D:href/> has text None: urlsplit(None) fails an assertion (500); not a URL
            env = {"REQUEST_METHOD": "REPORT", "PATH_INFO": "/u/cal/", "CONTENT_TYPE": "text/xml; charset=utf-8"}
            if base:
                env["HTTP_X_SCRIPT_NAME"] = base
            srv = srvs[k % 2]
            st, h, body = X.call_app(srv, env, X.multiget_body([href]))
            if st == 207:
                rs = X.response_status_map(body)
                if not rs:
                    o = "skip"
                elif len(rs) == 1:
                    o = "ok:" + rs[0][0]
                elif len(rs) == len(names) and all(r[1] == 200 for r in rs):
                    o = "coll:" + urllib.parse.quote(base + "/u/cal")      # the collection itself was referenced
                else:
                    o = "unexpected:%r" % (rs,)
            elif st == 400:
                o = "raise"                                               # do_REPORT turns the ValueError into 400
            else:
                o = "status-%d" % st
            ctx.count("multiget:" + o.split(":")[0])
            cases.append(((base, href), o))
        run_suite(ctx, "multiget", "run_multiget", cases, enc_pair, enc_str, "eq_dres_obs", key=repr)
        ctx.samples.append(dict(site="multiget", base=cases[-1][0][0], href=cases[-1][0][1], outcome=cases[-1][1]))


def find_uid(folder, uid):
    root = os.path.join(folder, "collection-root")
    hits = []
    for d, dirs, files in os.walk(root):
        dirs[:] = [x for x in dirs if x != ".Radicale.cache"]      # the history cache grows with every item ever stored
        for f in files:
            if f.startswith(".Radicale"):
                continue
            try:
                with open(os.path.join(d, f), "rb") as fh:
                    if ("UID:%s\r" % uid).encode() in fh.read().replace(b"\n", b"\r\n").replace(b"\r\r", b"\r"):
                        hits.append("/" + os.path.relpath(os.path.join(d, f), root))
            except OSError:
                pass
    return hits


def destination_suite(ctx):
    from vlib.impl import Server, event
    from radicale.app import move as move_mod
    rng = ctx.rng
    n = ctx.n(500, 4000)
    import contextlib
    with contextlib.ExitStack() as stack:
        cases = []
        fixed = [("http://127.0.0.1", "/u/cal/b%20c.ics"), ("http://127.0.0.1", "/u/cal/c;d.ics"), ("http://127.0.0.1", "/u/cal/c%3Bd.ics"),
                 ("http://127.0.0.1", "/u/cal/%C3%A9.ics"), ("http://127.0.0.1", "/u/cal/é.ics"), ("http://127.0.0.1:80", "/u/cal/x.ics"),
                 ("http://127.0.0.1:8080", "/u/cal/x.ics"), ("https://127.0.0.1", "/u/cal/x.ics"), ("https://127.0.0.1:80", "/u/cal/x.ics"),
                 ("", "/u/cal/x.ics"), ("//127.0.0.1", "/u/cal/x.ics"), ("http://127.0.0.1", "/u/cal/x%3Fy.ics"),
                 ("http://127.0.0.1", "/u/cal/x?y.ics"), ("http://127.0.0.1", "/u/cal/x%23y.ics"), ("http://127.0.0.1", "/u/cal/x#y.ics"),
                 ("http://127.0.0.1", "/u/cal/x%25y.ics"), ("http://127.0.0.1", "/u/cal/a+b.ics"), ("http://127.0.0.1", "/u/cal2/m.ics"),
                 ("http://127.0.0.1:x", "/u/cal/x.ics"), ("http://127.0.0.1:99999", "/u/cal/x.ics"), ("http://u:p@127.0.0.1", "/u/cal/x.ics"),
                 ("http://[::1", "/u/cal/x.ics"), ("HTTP://127.0.0.1", "/u/cal/x.ics"), ("http://127.0.0.1", "/u/cal/%2e%2e/cal2/y.ics"),
                 ("http://127.0.0.1", "/u/cal/x%2Fy.ics"), ("http://127.0.0.1", "/v/cal/x.ics"), ("http://127.0.0.1", "/u/cal/x.ics;p=1"),
                 ("http://127.0.0.1", "/u/cal/x%20.ics"), ("http://127.0.0.1", "/u/cal/%ffz.ics"), ("http://127.0.0.1:080", "/u/cal/x.ics")]
        for k in range(n):
            if k % 150 == 0:
                # Radicale's history cache makes every write O(items ever stored in the collection): fresh store per chunk
                stack.close()
                srv = stack.enter_context(X.fast_server(with_encoding(CONF, ENCODINGS[(k // 150) % len(ENCODINGS)])))
                srv.mkcol("/u/")
                srv.mkcalendar("/u/cal/")
                srv.mkcalendar("/u/cal2/")
            base = rng.choice(["", "", "/radicale", "/my app", X.rand_prefix(rng)])
            if k < len(fixed):
                pre, tail = fixed[k]
                dest = pre + urllib.parse.quote(base) + tail
            else:
                r = rng.random()
                comp = X.rand_component(rng)
                pre = rng.choice(["http://127.0.0.1"] * 6 + ["http://127.0.0.1:80", "https://127.0.0.1", "http://other", "", "http://127.0.0.1:81"])
                if r < 0.55:
                    dest = pre + urllib.parse.quote(base + rng.choice(["/u/cal/", "/u/cal/", "/u/cal2/"]) + comp)
                elif r < 0.75:
                    dest = pre + base + "/u/cal/" + comp
                else:
                    dest = pre + urllib.parse.quote(base) + rng.choice(["/u/cal/", "/u/", "/"]) + X.rand_url(rng, 6)
            if base and rng.random() < 0.08:
                sib = base + rng.choice(["2", "x", "%20", "-"])
                dest = "http://127.0.0.1" + rng.choice([urllib.parse.quote(sib), sib]) + "/u/cal/" + urllib.parse.quote(X.rand_component(rng))
            if k in (len(fixed), len(fixed) + 1):
                # a one-letter prefix and a path whose first component merely begins with that letter
                base, dest = "/r", "http://127.0.0.1/ru/cal/sib%d.ics" % k
                srv.mkcol("/ru/")
                srv.mkcalendar("/ru/cal/")
                srv.mkcol("/r/")
            uid = "mv%d" % k
            assert srv.put("/u/cal/src%d.ics" % k, event(uid))[0] == 201
            env = {"REQUEST_METHOD": "MOVE", "PATH_INFO": "/u/cal/src%d.ics" % k, "HTTP_HOST": HOST, "HTTP_DESTINATION": dest,
                   "HTTP_OVERWRITE": "T"}
            if base:
                env["HTTP_X_SCRIPT_NAME"] = base
            import wsgiref.util
            probe_env = dict(env)
            wsgiref.util.setup_testing_defaults(probe_env)
            sn = move_mod.get_server_netloc(probe_env, force_port=True)
            st, h, body = X.call_app(srv, env)
            where = find_uid(srv.folder, uid)
            if st in (201, 204) and len(where) == 1:
                o = "ok:" + urllib.parse.quote(base + where[0])
            elif st == 502:
                o = "remote"
            elif st == 500:
                o = "raise"
            elif st in (401, 403) and b"Access to the requested resource forbidden" in body:
                o = "skip"
            else:
                o = "unobservable"                              # 409 / 403 refused / 400: decoded, then refused by the storage rules
            ctx.count("destination:" + o.split(":")[0])
            cases.append(((sn, (base, dest)), o))
            for w in where:
                srv.request("DELETE", w)
        run_suite(ctx, "destination", "run_dest", cases,
                  lambda c: "(%s, (%s, %s))" % (enc_str(c[0]), enc_str(c[1][0]), enc_str(c[1][1])), enc_str, "eq_dres_obs", key=repr)
        ctx.samples.append(dict(site="MOVE Destination", case=repr(cases[0][0]), outcome=cases[0][1]))


# ------------------------------------------------------------------------------- 3. monitors (the property on the real server)
KNOWN_AMBIGUOUS = "C18: reverse proxy strips the script name and a top-level collection is spelled like the script name"


class Fail(Exception):
    def __init__(self, step, **kw):
        Exception.__init__(self, step)
        self.step, self.info = step, kw


def item_text(kind, uid):
    from vlib.impl import event, contact
    return event(uid) if kind == "C" else contact(uid)


def run_scenario(sc):
    """One deployment, one user, one collection with hostile names: returns (list of Fail, stats, last requests).
    The parts (item hrefs, collection hrefs, MOVE, Location) are checked independently."""
    from vlib.impl import Server
    mode, prefix, user, col, kind = sc["mode"], sc["prefix"], sc["user"], sc["col"], sc["kind"]
    conf = with_encoding({"auth": {"type": "none"}, "web": {"type": sc.get("web", "internal")}}, sc.get("encoding"))
    if mode == "config-full-xff":
        conf["server"] = {"script_name": prefix}
    host_hdr = X.HOSTNAME
    stats = dict(hrefs=0, requests=0)
    # third prefix source: the value as written in a configuration FILE (sc["file_value"], blanks around it included)
    server_cm = (X.file_server(sc.get("file_value", prefix), sc.get("web", "internal")) if mode == "configfile-full-xff"
                 else X.fast_server(conf))
    with server_cm as srv:
        if mode == "configfile-full-xff":
            got = srv.configuration.get("server", "script_name")
            if got != prefix:
                return [Fail("server.script_name read from the configuration file is not the value written there",
                             line="script_name = %s" % sc.get("file_value", prefix), expected=prefix, got=got)], stats, []
        fr = X.Front(srv, mode, prefix, login=user + ":pw", style=sc.get("style", "strict"))
        root = os.path.join(srv.folder, "collection-root")
        try:
            cpath = "/%s/%s/" % (user, col)
            curl = fr.client_url(cpath)
            if kind == "C":
                st = fr.send("MKCALENDAR", curl)[0]
            else:
                st = fr.send("MKCOL", curl, data=('<?xml version="1.0"?><D:mkcol xmlns:D="DAV:" xmlns:CR="urn:ietf:params:xml:ns:carddav">'
                                                  '<D:set><D:prop><D:resourcetype><D:collection/><CR:addressbook/></D:resourcetype>'
                                                  '</D:prop></D:set></D:mkcol>'))[0]
            if st != 201:
                raise Fail("create collection by its encoded URL", url=curl, status=st)
            if not os.path.isdir(os.path.join(root, user, col)):
                raise Fail("collection created under another name", url=curl, listing=sorted(os.listdir(root)))
            uids = {}
            for i, name in enumerate(sc["names"]):
                url = fr.client_url(cpath + name)
                st = fr.send("PUT", url, data=item_text(kind, "uid%d" % i),
                             headers={"Content-Type": "text/calendar" if kind == "C" else "text/vcard"})[0]
                if st != 201:
                    raise Fail("PUT by encoded URL", url=url, name=name, status=st)
                if not os.path.isfile(os.path.join(root, user, col, name)):
                    raise Fail("PUT stored the item under another name", url=url, name=name,
                               listing=sorted(x for x in os.listdir(os.path.join(root, user, col)) if not x.startswith(".Radicale")))
                uids[name] = "uid%d" % i
            # ---- every href the server hands out
            listings = []
            for what, method, url, body, hdrs in [
                    ("PROPFIND depth 1", "PROPFIND", curl, X.PROPFIND_ALL, {"Depth": "1"}),
                    ("PROPFIND principal", "PROPFIND", fr.client_url("/%s/" % user), X.PROPFIND_ALL, {"Depth": "1"}),
                    ("REPORT sync-collection", "REPORT", curl, X.SYNC_BODY, {}),
                    ("REPORT query", "REPORT", curl, X.QUERY_BODY[kind], {})]:
                st, h, b = fr.send(method, url, headers=hdrs, data=body)
                if st != 207:
                    raise Fail(what, url=url, status=st)
                listings.append((what, b))
            item_hrefs = {}
            coll_hrefs = set()
            for what, b in listings:
                for owner, href in X.all_hrefs(b):
                    stats["hrefs"] += 1
                    if not X.is_wf_quoted(href):
                        raise Fail("href is not a percent-encoded URL path", where=what, owner=owner, href=href)
                    if owner != "response":
                        coll_hrefs.add(href)
                for href, etag, is_coll in X.etags_of(b):
                    if is_coll or etag is None:
                        coll_hrefs.add(href)
                    else:
                        if item_hrefs.setdefault(href, etag) != etag:
                            raise Fail("two ETags for one href", href=href)
            if len(item_hrefs) != len(sc["names"]):
                raise Fail("listing does not show one href per stored item", hrefs=sorted(item_hrefs), names=sc["names"])
            etag_on_disk = {}
            etag_on_disk = {}
            fails = []
            try:
                # ---- send every item href back: request line, multiget
                reached = set()
                for href, etag in sorted(item_hrefs.items()):
                    st, h, b = fr.send("GET", href)
                    if st != 200 or h.get("ETag") != etag:
                        raise Fail("GET of an emitted href does not reach the item it described", href=href, status=st,
                                   etag_listed=etag, etag_got=h.get("ETag"))
                    for name, uid in uids.items():
                        if ("UID:%s\r\n" % uid).encode() in b.replace(b"\r\n", b"\n").replace(b"\n", b"\r\n"):
                            reached.add(name)
                            etag_on_disk[name] = (href, etag)
                    st, h, b = fr.send("REPORT", curl, data=X.multiget_body([href], kind))
                    rs = X.response_status_map(b) if st == 207 else []
                    if st != 207 or len(rs) != 1 or rs[0][0] != href or rs[0][1] != 200:
                        raise Fail("multiget of an emitted href does not return the item it described", href=href, status=st, responses=rs[:3])
                    # absolute form, as clients that resolve hrefs against the base URL send it
                    st, h, b = fr.send("REPORT", curl, data=X.multiget_body(["http://%s%s" % (host_hdr, href)], kind))
                    rs = X.response_status_map(b) if st == 207 else []
                    if st != 207 or len(rs) != 1 or rs[0][0] != href or rs[0][1] != 200:
                        raise Fail("multiget of an emitted href (absolute URL) does not return the item it described", href=href,
                                   status=st, responses=rs[:3])
                if reached != set(sc["names"]):
                    raise Fail("emitted hrefs do not reach every stored item", missing=sorted(set(sc["names"]) - reached))
            except X.LeftMount as e:
                fails.append(Fail("an emitted href does not lie below the mount prefix", href=str(e)))
            except Fail as f:
                fails.append(f)
            try:
                # ---- collection / principal hrefs: PROPFIND depth 0 must answer for the same href
                for href in sorted(coll_hrefs):
                    st, h, b = fr.send("PROPFIND", href, headers={"Depth": "0"}, data=X.PROPFIND_ALL)
                    first = X.etags_of(b)[0][0] if st == 207 else None
                    if st != 207 or first != href:
                        raise Fail("PROPFIND of an emitted collection/principal href does not reach the collection it described",
                                   href=href, status=st, answered_for=first)
            except X.LeftMount as e:
                fails.append(Fail("an emitted href does not lie below the mount prefix", href=str(e)))
            except Fail as f:
                fails.append(f)
            try:
                # ---- MOVE: Destination spelled by the client, then Destination = an href the server emitted
                for name, new in zip(sc["names"], sc["move_names"]):
                    if name not in etag_on_disk:
                        break
                    href, etag = etag_on_disk[name]
                    dest_url = fr.client_url(cpath + new)
                    st = fr.send("MOVE", href, headers={"Destination": "http://%s%s" % (host_hdr, dest_url)})[0]
                    if st != 201:
                        raise Fail("MOVE to an encoded Destination", source=href, destination=dest_url, status=st)
                    listing = sorted(x for x in os.listdir(os.path.join(root, user, col)) if not x.startswith(".Radicale"))
                    if not os.path.isfile(os.path.join(root, user, col, new)) or os.path.exists(os.path.join(root, user, col, name)):
                        raise Fail("MOVE by an encoded Destination reached another name than the decoded request path would",
                                   destination=dest_url, expected_name=new, listing=listing)
                    st, h, b = fr.send("GET", dest_url)
                    if st != 200 or ("UID:%s" % uids[name]).encode() not in b:
                        raise Fail("GET of the URL used as Destination does not return the moved item", url=dest_url, status=st)
                    # back, using the href the server handed out for the original name
                    st = fr.send("MOVE", dest_url, headers={"Destination": "http://%s%s" % (host_hdr, href)})[0]
                    if st != 201 or not os.path.isfile(os.path.join(root, user, col, name)):
                        raise Fail("MOVE with an emitted href as Destination does not reach the name the href described",
                                   destination=href, expected_name=name, status=st,
                                   listing=sorted(x for x in os.listdir(os.path.join(root, user, col)) if not x.startswith(".Radicale")))
            except X.LeftMount as e:
                fails.append(Fail("an emitted href does not lie below the mount prefix", href=str(e)))
            except Fail as f:
                fails.append(f)
            try:
                # ---- Location headers
                for start in ["/", "/.well-known/caldav", "/.well-known/carddav", "//.web", "/.web"]:
                    url = fr.client_url(start) if start != "//.web" else fr.client_url("/") + "/.web"
                    hops = 0
                    while True:
                        try:
                            st, h, b = fr.send("GET", url)
                        except X.LeftMount:
                            raise Fail("Location leaves the mount prefix", start=start, location=url)
                        if st in (301, 302):
                            loc = h.get("Location", "")
                            stats["hrefs"] += 1
                            if not X.is_wf_quoted(loc):
                                raise Fail("Location header is not a percent-encoded URL path", requested=url, location=loc)
                            url = loc
                            hops += 1
                            if hops > 5:
                                raise Fail("redirect loop", start=start, location=loc)
                            continue
                        if st != 200:
                            raise Fail("following the Location header does not reach a page", start=start, url=url, status=st)
                        break
            except X.LeftMount as e:
                fails.append(Fail("an emitted href does not lie below the mount prefix", href=str(e)))
            except Fail as f:
                fails.append(f)
        except X.LeftMount as e:
            return [Fail("an emitted href does not lie below the mount prefix", href=str(e))], stats, fr.log[-6:]
        except Fail as f:
            return [f], stats, fr.log[-6:]
        except ET.ParseError as e:
            return [Fail("a multistatus body is not well-formed XML", error=str(e))], stats, fr.log[-6:]
        stats["requests"] = len(fr.log)
        return fails, stats, fr.log[-6:] if fails else []


def component_ok(s):
    return bool(s) and "/" not in s and s not in (".", "..") and not s.startswith(".") and not s.endswith("~") \
        and len(s.encode("utf-8")) <= 200


def coherent_repertoire(rng, sc, kind, ext):
    """One codec pair for the whole deployment (X.codec_readings): user and collection are spelled in the reading
    `kind`, and the collection holds each name TOGETHER with its reading, so that a site which applies the codec once
    too often or too seldom lands on the other item instead of on nothing."""
    def read(n):
        t = X.reading_of(n, kind)
        return t if t is not None and component_ok(t) else None
    for key in ("user", "col"):
        t = read(sc[key])
        if t is not None and ":" not in t:
            sc[key] = t
    names, taken = [], set()
    for tries in range(60):
        if len(names) >= 4:
            break
        n = sc["names"][tries] if tries < len(sc["names"]) else X.rand_component(rng, 8) + rng.choice(["", ext])
        t = read(n)
        if t is None or n.lower() in taken or t.lower() in taken or n.lower() == t.lower():
            continue
        names += [n, t]
        taken |= {n.lower(), t.lower()}
    if not names:
        return
    moves = []
    for m in sc["move_names"]:
        t = read(m)
        m = t if t is not None else m
        while m.lower() in taken:
            m = "m" + m
        taken.add(m.lower())
        moves.append(m)
    sc.update(names=names, move_names=moves, repertoire=kind)


def gen_scenario(rng, mode=None, prefix=None):
    mode = mode or rng.choice(X.MODES)
    if prefix is None:
        prefix = "" if mode == "none" else X.rand_prefix(rng) or "/radicale"
        while mode.startswith("proxy") and prefix != prefix.strip():
            prefix = X.rand_prefix(rng) or "/radicale"      # HTTP trims white space around a header value (X-Script-Name)
    while True:
        user = X.rand_component(rng, 5)
        if ":" in user or not X.latin1(user) and False:
            continue
        if ":" in user:
            continue
        break
    names = []
    kind = rng.choice(["C", "C", "CR"])
    ext = ".ics" if kind == "C" else ".vcf"
    while len(names) < rng.choice([2, 3, 4]):
        n = X.rand_component(rng, 8)
        if rng.random() < 0.5:
            n += ext
        if n.lower() not in [m.lower() for m in names]:
            names.append(n)
    moves = []
    while len(moves) < 2:
        n = X.rand_component(rng, 8)
        if n.lower() not in [m.lower() for m in names + moves]:
            moves.append(n)
    sc = dict(mode=mode, prefix=prefix, user=user, col=X.rand_component(rng, 6), kind=kind, names=names, move_names=moves,
              style=rng.choice(["strict", "pchar"]), web=rng.choice(["internal", "internal", "none"]))
    if rng.random() < 0.3:
        coherent_repertoire(rng, sc, rng.choice(X.READING_KINDS), ext)
    if mode == "configfile-full-xff":
        sc["prefix"], sc["file_value"] = gen_file_prefix(rng)
    elif rng.random() < 0.4 and sc["user"].isascii():
        # a legacy charset for request bodies; credentials are read in that charset too, so the login stays ASCII
        sc["encoding"] = rng.choice(ENCODINGS[1:])
        while not sc["user"].isascii() or ":" in sc["user"]:
            sc["user"] = X.rand_component(rng, 5)
    return sc


FILE_PREFIXES = ["/dav #1 ;shared", "/a #b", "/a ;b", "/a#b", "/a;b", "/#", "/;", "/100%", "/%41", "/%(x)s", "/my app", "/é ü", "/日本",
                 "/x\t#y", "/x\t;y", "/a = b", "/a: b", "/[dav]", "/q?x", "/a&b", "/a  b", "/a #", "/a ;", "/dav/#1/;2", "/a\\b", '/"q"', "/'q'"]


def gen_file_prefix(rng):
    """(value the server must use, value as written after `script_name = `): configparser strips the blanks around a value."""
    while True:
        v = rng.choice(FILE_PREFIXES + [X.rand_prefix(rng)] * 8)
        if rng.random() < 0.3:
            v = v + rng.choice([" #", " ;", " # c", " ;c", "#", ";", " %", " =", " :"]) + rng.choice(["", "x", "1 2"])
        if not v or not X.file_value_ok(v):
            continue
        written = v + rng.choice(["", "", "", " ", "   ", "\t"])
        if v != v.strip() or v.strip().endswith("/"):
            continue
        return v, written


FIXED_SCENARIOS = [
    # the witnesses of the repaired defects, kept as regression cases
    dict(mode="none", prefix="", user="u", col="cal", kind="C", names=["a.ics", "b c.ics"], move_names=["b%20c.ics", "d e.ics"]),      # F5
    dict(mode="proxy-strip", prefix="/my app", user="u", col="cal", kind="C", names=["a.ics"], move_names=["x.ics"]),                   # F11
    dict(mode="proxy-strip-xff", prefix="/radicale", user="radicale2", col="cal", kind="C", names=["a.ics"], move_names=["x.ics"]),     # F12
    dict(mode="none", prefix="", user="u", col="cal", kind="C", names=["a;b.ics", "c.ics"], move_names=["c;d.ics", "e;f;g"]),           # F13
    dict(mode="none", prefix="", user="u", col="cal", kind="C", names=["a;b.ics", "c+d e.ics"], move_names=["c;d.ics", "e+f;g=h"], style="pchar"),
    dict(mode="proxy-full-xff", prefix="/a/b", user="u;x", col="c?d", kind="CR", names=["#1.vcf", "é ü.vcf"], move_names=["%41.vcf", "z"]),
    dict(mode="config-full-xff", prefix="/é/my app", user="u", col="ca l", kind="C", names=["\U0001F600.ics", "100%.ics"], move_names=["a&b=c", "q'\"<>"]),
    dict(mode="wsgi", prefix="/dav;v=1", user="a@b", col="x+y", kind="C", names=["p q+r.ics", "\\back.ics"], move_names=["::", "[x]"]),
]
FIXED_SCENARIOS += [
    # not behind a reverse proxy (no X-Forwarded-*): a collection spelled like the script name is an ordinary collection
    dict(mode="wsgi", prefix="/radicale", user="radicale", col="cal", kind="C", names=["a.ics"], move_names=["x.ics"]),
    dict(mode="proxy-strip", prefix="/radicale", user="radicale", col="radicale", kind="C", names=["radicale"], move_names=["x.ics"]),
]
FIXED_SCENARIOS += [
    # server.script_name written in a configuration FILE: ' #' / ' ;' are part of the value, not comments
    dict(mode="configfile-full-xff", prefix="/dav #1 ;shared", file_value="/dav #1 ;shared", user="u", col="cal", kind="C",
         names=["a.ics"], move_names=["x.ics"]),
    dict(mode="configfile-full-xff", prefix="/é 100%;x #y", file_value="/é 100%;x #y  ", user="u #1", col="c ;d", kind="C",
         names=["a #b.ics"], move_names=["x ;y.ics"], web="none"),
    # [encoding] request = a legacy charset: URLs stay UTF-8
    dict(mode="none", prefix="", user="u", col="c\u00e9", kind="C", names=["caf\u00e9.ics", "\u20ac.ics"], move_names=["na\u00efve.ics", "\u65e5.ics"],
         encoding="iso-8859-1"),
    # [web] type = none
    dict(mode="proxy-strip", prefix="/my app", user="u", col="cal", kind="C", names=["a.ics"], move_names=["x.ics"], web="none"),
]
FIXED_SCENARIOS += [
    # a collection that holds names together with their readings under the codecs of the request path
    dict(mode="none", prefix="", user="u", col="R\u00c3\u00a9union", kind="C",
         names=["caf\u00e9.ics", "caf\u00c3\u00a9.ics", "caf%C3%A9.ics", "caf%25C3%25A9.ics", "\u00c2\u00a7 12.ics", "\u00a7 12.ics"],
         move_names=["na\u00c3\u00afve.ics", "\u00e2\u201a\u00ac.ics"]),
    dict(mode="proxy-full-xff", prefix="/d\u00c3\u00a4v", user="u2", col="\u00c3\u00bc", kind="CR",
         names=["\u00e6\u2014\u00a5.vcf", "\u65e5.vcf"], move_names=["%E6%97%A5.vcf", "x"], encoding="iso-8859-1"),
]
AMBIGUOUS_SCENARIO = dict(mode="proxy-strip-xff", prefix="/radicale", user="radicale", col="cal", kind="C", names=["a.ics"],
                          move_names=["x.ics"])


def sc_ambiguous(sc):
    """The known class: a proxy strips the prefix AND sends X-Forwarded-*, and the collection path itself lies below the prefix."""
    return bool(sc["mode"] == "proxy-strip-xff" and sc["prefix"]
                and ("/%s/%s/" % (sc["user"], sc["col"])).startswith(sc["prefix"] + "/"))


def sc_nontrivial(sc):
    text = sc["prefix"] + sc["user"] + sc["col"] + "".join(sc["names"]) + "".join(sc["move_names"])
    return urllib.parse.quote(text) != text


PCHAR_SAFE = "/!$&'()*+,;=:@"


def mon_request_line(ctx, names):
    """A name written by a client with either percent-encoding style reaches the handler as that very name."""
    n = 0
    for name in names:
        for style, safe in (("strict", "/"), ("pchar", PCHAR_SAFE)):
            path = "/u/" + name
            target = urllib.parse.quote(path, safe=safe)
            for t in (target, target + "?sync=1&x=%2F"):
                n += 1
                got = X.get_environ_only(t)
                if got != path:
                    ctx.violation("request line: %r written as %r reaches Radicale as %r" % (path, t, got),
                                  dict(function="radicale.server.RequestHandler.get_environ", target=t, expected=path, got=got))
                    return
    # every request target, also one whose escapes are not UTF-8, must give a PATH_INFO the server can hand out again:
    # code points that str.encode('utf-8') accepts (make_href raises on anything else)
    from radicale import xmlutils, pathutils
    for tail in MALFORMED_TAILS + ["%%%02X" % b for b in range(128, 256)] + ["%%%02X%%%02X" % (a, b) for a in (0xC2, 0xE0, 0xED, 0xF0, 0xF4)
                                                                                for b in (0x7F, 0x80, 0x9F, 0xA0, 0xBF, 0xC0)]:
        t = "/u/cal/" + tail
        n += 1
        got = X.get_environ_only(t)
        try:
            xmlutils.make_href("", pathutils.sanitize_path(got))
        except UnicodeEncodeError as e:
            ctx.violation("request line %r reaches Radicale as %r, a name no href can be made for (%s)" % (t, got, e),
                          dict(function="radicale.server.RequestHandler.get_environ", target=t, expected=urllib.parse.unquote(t), got=got))
            return
    ctx.extra["monitor_request_lines"] = n


def spellings(rng, path):
    """Different ways a client may write the URL of the storage path `path` (all denote the same resource)."""
    strict = urllib.parse.quote(path, safe="/")
    pchar = urllib.parse.quote(path, safe=PCHAR_SAFE)
    out = [strict, pchar, re.sub(r"%[0-9A-F]{2}", lambda m: m.group(0).lower(), strict)]
    # unreserved characters escaped although they need not be
    out.append(re.sub(r"%[0-9A-F]{2}|[A-Za-z0-9]",
                      lambda m: m.group(0) if (len(m.group(0)) == 3 or rng.random() < 0.6) else "%%%02X" % ord(m.group(0)), strict))
    # dot segments and doubled slashes in front of the last segment
    head, _, last = strict.rpartition("/")
    out.append(head + "/./" + last)
    out.append(head + "//" + last)
    out.append(head + "/x/../" + last)
    out.append(head + "/x/%2E%2E/" + last)
    out.append(strict + "?q=%2F;#")
    return out


PROPFIND_ETAG = ('<?xml version="1.0"?><D:propfind xmlns:D="DAV:"><D:prop><D:getetag/><D:resourcetype/></D:prop></D:propfind>')
SD_CONF = {"auth": {"type": "none"}, "rights": {"type": "vlib.x_c18_rights"}, "web": {"type": "none"}}
# [encoding] request is the charset of request BODIES (and of the answers); URLs are UTF-8 whatever it says
ENCODINGS = ["utf-8", "iso-8859-1", "cp1252"]


def with_encoding(conf, enc):
    c = {k: dict(v) for k, v in conf.items()}
    if enc and enc != "utf-8":
        c["encoding"] = {"request": enc}
    return c


# URLs with percent-encoded bytes that are not UTF-8 (legacy latin-1 clients, truncated / overlong / surrogate sequences)
MALFORMED_TAILS = ["caf%E9.ics", "%E9", "x%FFy.ics", "a%C3", "%C3%28.ics", "%ED%A0%80z", "%C0%AFq", "x%E2%82.ics", "%80", "%F4%90%80%80",
                   "na%EFve%20%E9t%E9", "%FE%FF", "ok%C3%A9%E9"]


def sd_front(srv, base):
    from vlib.impl import event
    fr = X.Front(srv, "proxy-strip" if base else "none", base)
    fr.send("MKCOL", fr.client_url("/u/"))
    fr.send("MKCALENDAR", fr.client_url("/u/cal/"))
    return fr


def sd_check_url(srv, fr, base, url, path, uid, enc="utf-8"):
    """One URL `url` that should denote the storage path `path` (below /u/cal/; None = whatever name the request line
    gives it, for URLs with malformed escapes): request line, listing, multiget, Destination.
    Returns None or (what, replay dict)."""
    from vlib.impl import event
    rep = dict(monitor="same_decoding", kind="url", base=base, url=url, expected=path, encoding=enc)
    st = fr.send("PUT", url, data=event(uid))[0]
    where1 = find_uid(srv.folder, uid)
    if st != 201 or len(where1) != 1 or (path is not None and where1 != [path]):
        return "request line %r does not reach %r" % (url, path or "one item"), dict(rep, status=st, found=where1)
    path = where1[0]
    # whatever was accepted must be handed out again: the collection can be listed and the listed href leads to the item
    st, h, b = fr.send("PROPFIND", fr.client_url("/u/cal/"), headers={"Depth": "1"}, data=PROPFIND_ETAG)
    if st != 207:
        return ("after PUT %r (stored as %r) the collection cannot be listed: PROPFIND Depth 1 answers %d" % (url, path, st),
                dict(rep, status=st, found=where1))
    reached = False
    for href, etag, is_coll in X.etags_of(b):
        if not is_coll and etag:
            st2, h2, b2 = fr.send("GET", href)
            if st2 == 200 and ("UID:" + uid).encode() in b2:
                reached = True
    if not reached:
        return ("no href of the listing leads to the item PUT as %r (stored as %r)" % (url, path),
                dict(rep, found=where1, hrefs=[r[0] for r in X.etags_of(b)][:5]))
    st, h, b = fr.send("REPORT", fr.client_url("/u/cal/"), data=X.multiget_body([url.split("#")[0]]))
    rs = X.response_status_map(b) if st == 207 else []
    if [r[1] for r in rs] != [200] or ("UID:" + uid) not in (rs[0][2] or ""):
        return ("multiget href %r does not select the item the request line %r created" % (url, url),
                dict(rep, status=st, responses=rs[:3]))
    src = fr.client_url("/u/cal/src.ics")
    st = fr.send("MOVE", url.split("#")[0].split("?")[0], headers={"Destination": "http://%s%s" % (X.HOSTNAME, src)})[0]
    if st != 201:
        return "MOVE away from %r" % url, dict(rep, status=st)
    st = fr.send("MOVE", src, headers={"Destination": "http://%s%s" % (X.HOSTNAME, url)})[0]
    where2 = find_uid(srv.folder, uid)
    if st != 201 or where2 != [path]:
        return ("Destination %r reaches %r, the same URL as request line reaches %r" % (url, where2, path),
                dict(rep, status=st, found=where2))
    fr.send("DELETE", url.split("#")[0].split("?")[0])
    return None


def sd_check_outside(srv, fr, base, u, uid):
    """A URL `u` that is not below the base prefix must be refused as Destination and skipped as multiget href."""
    from vlib.impl import event
    rep = dict(monitor="same_decoding", kind="outside", base=base, url=u)
    src = fr.client_url("/u/cal/src.ics")
    fr.send("PUT", src, data=event(uid))
    st = fr.send("MOVE", src, headers={"Destination": "http://%s%s" % (X.HOSTNAME, u)})[0]
    if st in (201, 204) or st >= 500:
        return ("Destination %r is outside the base prefix %r but is not refused: status %d, item now at %r" % (
            u, base, st, find_uid(srv.folder, uid)), dict(rep, status=st, found=find_uid(srv.folder, uid)))
    st, h, b = fr.send("REPORT", fr.client_url("/u/cal/"), data=X.multiget_body([u]))
    rs = X.response_status_map(b) if st == 207 else []
    if rs or st >= 500:
        return "multiget href %r is outside the base prefix %r but was answered (status %d)" % (u, base, st), dict(rep, responses=rs[:3])
    fr.send("DELETE", src)
    return None


def mon_same_decoding(ctx):
    """`decodes it the same way`, stated on the implementation: a URL used as request target of PUT, as multiget href
    and as MOVE Destination names the same file; a URL that is not below the base prefix names nothing."""
    rng = ctx.rng
    n = ctx.n(240, 3000)
    checked = 0
    chunk = 30        # Radicale's history cache makes every write O(items ever stored in the collection): fresh store per chunk
    nchunk = 0
    for base in ["", "/radicale", "/r", "/my app"]:
        for start in range(0, n // 4, chunk):
            enc = ENCODINGS[nchunk % len(ENCODINGS)] if nchunk % 2 else "utf-8"      # every other store: a legacy body charset
            nchunk += 1
            ctx.count("same_decoding:encoding:" + enc)
            with X.fast_server(with_encoding(SD_CONF, enc)) as srv:
                fr = sd_front(srv, base)
                if base == "/r":
                    for top in ("/2u/", "/xu/"):
                        srv.mkcol(top), srv.mkcalendar(top + "cal/")
                for k in range(start, min(start + chunk, n // 4)):
                    name = X.rand_component(rng, 8)
                    path = "/u/cal/" + name
                    urls = [(u, path) for u in rng.sample(spellings(rng, base + path), 3)]
                    if k % 3 == 0:
                        # a URL whose escapes are not UTF-8: no expected name, but one name for all three reading sites
                        urls.append((urllib.parse.quote(base + "/u/cal/") + rng.choice(["", "x", urllib.parse.quote(name[:3], safe="")])
                                     + rng.choice(MALFORMED_TAILS), None))
                    for url, want in urls:
                        checked += 1
                        bad = sd_check_url(srv, fr, base, url, want, "sd%d" % checked, enc)
                        if bad:
                            ctx.violation(bad[0], bad[1])
                            return
                    if base:
                        # a sibling of the prefix is not below the prefix
                        outs = [urllib.parse.quote(base + rng.choice(["2", "x", "-", "."]) + path)]
                        if base == "/r":
                            outs.append(urllib.parse.quote(base + rng.choice(["2", "x"]) + "u/cal/" + name))
                        for u in outs:
                            checked += 1
                            bad = sd_check_outside(srv, fr, base, u, "so%d" % checked)
                            if bad:
                                ctx.violation(bad[0], bad[1])
                                return
    ctx.extra["monitor_same_decoding_urls"] = checked
    ctx.count("monitor:same_decoding", checked)


REDIRECT_STARTS = ["/", "", "/.well-known/caldav", "/.well-known/carddav", "/.well-known/caldav/", "/x/.well-known/carddav",
                   "/.web", "/.web/", "/.web//", "//.web", "/.web/./", "/.web/x/..", "/.web/css", "/.web/index.html", "/.web/nothing"]
REDIRECT_PREFIXES = ["/my app", "/100%", "/a#b", "/q?x", "/a;b", "/a&b=c", "/é", "/日本 語", "/%41", "/a b/c%20d", "/+", "/a:b@c", "/'\"<>"]


def redirect_walk(fr, prefix, start):
    """GET prefix+start as a client writes it and follow every redirect: each Location must be a percent-encoded URL
    path below the mount prefix; the walk must not loop and must not end in a server error.
    Returns None or (what, detail)."""
    url = fr.client_url("/") [:-1] + urllib.parse.quote(start, safe="/") if start else fr.client_url("/")[:-1]
    if not url:
        url = "/"
    first = url
    for hop in range(6):
        try:
            st, h, b = fr.send("GET", url)
        except X.LeftMount:
            return "Location leaves the mount prefix", dict(requested=first, location=url)
        if st in (301, 302, 303, 307, 308):
            loc = h.get("Location", "")
            if not X.is_wf_quoted(loc):
                return "Location header is not a percent-encoded URL path", dict(requested=url, location=loc, status=st)
            url = loc
            continue
        if st >= 500:
            return "following the Location header ends in a server error", dict(requested=first, url=url, status=st)
        if hop > 0 and st != 200 and not (st == 404 and start in ("/.web/css", "/.web/nothing")):
            # (a directory of the internal web interface without index file is redirected to "dir/" and then 404)
            return "following the Location header does not reach a page", dict(requested=first, url=url, status=st)
        return None
    return "redirect loop", dict(requested=first, url=url)


def redirect_case(rc):
    """One deployment (mode, prefix, [web] type): all redirecting paths.  Returns (failures, number of walks)."""
    mode, prefix, web = rc["mode"], rc["prefix"], rc["web"]
    conf = {"auth": {"type": "none"}, "web": {"type": web}}
    if mode == "config-full-xff":
        conf["server"] = {"script_name": prefix}
    cm = X.file_server(rc.get("file_value", prefix), web) if mode == "configfile-full-xff" else X.fast_server(conf)
    fails = []
    with cm as srv:
        fr = X.Front(srv, mode, prefix)
        for start in rc.get("starts", REDIRECT_STARTS):
            bad = redirect_walk(fr, prefix, start)
            if bad:
                fails.append((bad[0], dict(bad[1], start=start, last_requests=fr.log[-4:])))
    return fails, len(rc.get("starts", REDIRECT_STARTS))


def mon_redirects(ctx):
    """Every Location the server answers, for BOTH [web] types, every redirecting path and every prefix source."""
    rng = ctx.rng
    cases = []
    for web in ("internal", "none"):
        for mode in X.MODES:
            if mode == "none":
                cases.append(dict(mode=mode, prefix="", web=web))
                continue
            pre = list(REDIRECT_PREFIXES)
            rng.shuffle(pre)
            for prefix in pre[:ctx.n(4, len(pre))] + [X.rand_prefix(rng) or "/r" for _ in range(ctx.n(2, 40))]:
                rc = dict(mode=mode, prefix=prefix, web=web)
                if mode.startswith("proxy") and prefix != prefix.strip():
                    continue
                if mode == "configfile-full-xff":
                    if not X.file_value_ok(prefix) or prefix != prefix.strip():
                        continue
                    rc["file_value"] = prefix + rng.choice(["", " ", "\t "])
                cases.append(rc)
    walks, seen = 0, set()
    for rc in cases:
        fails, n = redirect_case(rc)
        walks += n
        ctx.case(("redirects", json.dumps(rc, sort_keys=True)), nontrivial=urllib.parse.quote(rc["prefix"]) != rc["prefix"])
        ctx.count("redirects:%s:%s" % (rc["web"], rc["mode"]))
        for what, detail in fails:
            key = (what, rc["web"])
            if key in seen:
                continue
            seen.add(key)
            ctx.violation("C18 redirects: %s ([web] type = %s, mode %s, prefix %r, GET %r)" % (what, rc["web"], rc["mode"], rc["prefix"],
                                                                                              detail.get("start")),
                          dict(monitor="redirects", case=dict(rc, starts=[detail.get("start")]), detail=detail))
    ctx.extra["monitor_redirect_walks"] = walks


def monitors(ctx):
    rng = ctx.rng
    mon_redirects(ctx)
    mon_same_decoding(ctx)
    mon_request_line(ctx, [X.rand_component(rng, 10, allow_dot_start=True) for _ in range(ctx.n(1500, 50000))]
                     + ["a+b", "a b", "a%20b", "a;b", "a:b@c", "é+ü", "+", "%2B"])
    scs = list(FIXED_SCENARIOS)
    for mode in X.MODES:
        scs.append(gen_scenario(rng, mode))
    while len(scs) < ctx.n(150, 3000):
        scs.append(gen_scenario(rng))
    total = dict(hrefs=0, requests=0)
    seen_steps = set()
    for idx, sc in enumerate(scs):
        fails, stats, log = run_scenario(sc)
        ctx.case(("scenario", json.dumps(sc, sort_keys=True)), nontrivial=sc_nontrivial(sc))
        ctx.count("scenario:" + sc["mode"])
        ctx.count("scenario:repertoire:" + sc.get("repertoire", "mixed"))
        for k in total:
            total[k] += stats.get(k, 0)
        if fails and sc_ambiguous(sc):
            # the recorded limitation (Coq: `ambiguous rp base p`), hit by a random draw
            ctx.violation("C18 monitor: %s" % fails[0].step, dict(scenario=sc, step=fails[0].step, detail=fails[0].info, last_requests=log),
                          signature=KNOWN_AMBIGUOUS)
            continue
        for fail in fails:
            ctx.count("monitor-failure:" + fail.step)
            key = (fail.step, idx if idx < len(FIXED_SCENARIOS) else None)
            if key in seen_steps or len(seen_steps) >= 10:
                continue                      # one replay per kind of failure (and per regression scenario)
            seen_steps.add(key)
            ctx.violation("C18 monitor: %s (mode %s, prefix %r)" % (fail.step, sc["mode"], sc["prefix"]),
                          dict(scenario=sc, step=fail.step, detail=fail.info, last_requests=log,
                               note="replay: ./check C18 --replay <this file> re-runs the scenario against VERIF_REPO"))
    ctx.extra["monitor_hrefs_checked"] = total["hrefs"]
    ctx.extra["monitor_requests"] = total["requests"]
    ctx.samples.append(dict(scenario=scs[len(FIXED_SCENARIOS)]))
    # the recorded, not repaired, limitation
    fails, stats, log = run_scenario(AMBIGUOUS_SCENARIO)
    ctx.count("scenario:known-ambiguous")
    if fails:
        fail = fails[0]
        ctx.violation("C18 monitor: %s" % fail.step, dict(scenario=AMBIGUOUS_SCENARIO, step=fail.step, detail=fail.info, last_requests=log),
                      signature=KNOWN_AMBIGUOUS)
    else:
        ctx.notes.append("the known ambiguity (stripping proxy + collection named like the script name) no longer reproduces")


def replay(ctx, path):
    data = json.load(open(path))
    rep = data.get("replay", {})
    if rep.get("function"):
        got = X.get_environ_only(rep["target"])
        print("get_environ(%r) -> PATH_INFO %r, expected %r" % (rep["target"], got, rep["expected"]))
        return 0 if got == rep["expected"] else 1
    if rep.get("monitor") == "redirects":
        fails, n = redirect_case(rep["case"])
        for what, detail in fails:
            print("FAILS: %s\n %r" % (what, detail))
        if not fails:
            print("passes against " + core.REPO)
        return 1 if fails else 0
    if rep.get("monitor") == "same_decoding":
        with X.fast_server(with_encoding(SD_CONF, rep.get("encoding"))) as srv:
            fr = sd_front(srv, rep["base"])
            if rep["base"] == "/r":
                for top in ("/2u/", "/xu/"):
                    srv.mkcol(top), srv.mkcalendar(top + "cal/")
            if rep["kind"] == "url":
                bad = sd_check_url(srv, fr, rep["base"], rep["url"], rep["expected"], "replay", rep.get("encoding", "utf-8"))
            else:
                bad = sd_check_outside(srv, fr, rep["base"], rep["url"], "replay")
            print("requests:", fr.log)
        print("passes against " + core.REPO if not bad else "FAILS: %s\n %r" % bad)
        return 1 if bad else 0
    sc = rep.get("scenario")
    if not sc:
        print(json.dumps(data, indent=1)[:4000])
        return 0
    fails, stats, log = run_scenario(sc)
    print("scenario:", json.dumps(sc, ensure_ascii=False))
    if not fails:
        print("scenario passes against", core.REPO)
        return 0
    for fail in fails:
        print("FAILS at step: %s\n detail: %r" % (fail.step, fail.info))
    print("last requests: %r" % (log,))
    return 1


def run(ctx):
    ctx.rule = ("string suites: exhaustive strings up to length L over {/ % 4 1 a F ? # ; : space e-acute z}, all single bytes, all "
                "pairs and sampled 3-4 byte sequences over the UTF-8 boundary bytes, random URL-ish strings and names over the "
                "property's character set; distinct by (function, input).  request suites: one case = (prefix source, prefix, "
                "name, channel); non-trivial = name or prefix contains a character that quote() changes")
    ctx.assumptions += [
        "Python str = list of code points; hrefs are emitted only for names made of Unicode scalar values (a lone surrogate, "
        "possible only for a file put into the folder by hand under a non-UTF-8 name, makes quote() raise -> 500)",
        "base prefix is '' or a sanitised path without trailing slash (an unnormalised X-Script-Name such as /a//b is a "
        "configuration error: nothing below it is reachable)",
        "request targets are origin-form and ASCII (RFC 9112); http.server's own request-line parsing before get_environ is CPython's",
        "bracketed (IPv6) and non-ASCII netlocs in Destination / href are outside the model (ipaddress, NFKC checks of urlsplit)",
    ]
    ctx.prove()
    ctx.log("proofs built:", ctx.build_ok)
    shared = {}

    def phase(name, fn):
        # a crashing suite (e.g. an answer that cannot be parsed after a code change) must not keep the monitors from running
        try:
            fn()
        except Exception:
            import traceback
            tb = traceback.format_exc()
            print(tb)
            ctx.obligation("check-machinery-ran:%s" % name, False, tb)
        ctx.log(name, "done")

    phase("stdlib suites", lambda: shared.update(zip(("strs", "names"), stdlib_suites(ctx))))
    phase("pathinfo", lambda: pathinfo_suite(ctx, shared.get("strs", [])))
    phase("make_href", lambda: make_href_suite(ctx))
    phase("front suites", lambda: front_suites(ctx))
    phase("multiget", lambda: multiget_suite(ctx))
    phase("destination", lambda: destination_suite(ctx))
    phase("monitors", lambda: monitors(ctx))
