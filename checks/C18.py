"""C18 -- Every name the server hands out or accepts round-trips through URL encoding.

1. proof: Props/C18.v over Model/Url.v and the regenerated Gen/UrlGen.v (make_href, tie T)
2. correspondence (tie K)
   a. the models of CPython's UTF-8 codec, urllib.parse.quote / unquote / urlparse against CPython
      (exhaustive short strings over a delimiter alphabet, all 1-3 byte sequences at the UTF-8 boundaries, random)
   b. the models of Radicale's reading sites against the real code: RequestHandler.get_environ, the prefix
      selection / stripping / well-known part of _handle_request (observed through a probe method), multiget href
      decoding (observed in the REPORT answer), Destination decoding (observed on the storage folder),
      make_href and the Location headers
3. monitors: the property itself on the real application: every href / Location / principal property the server
   emits for hostile names and prefixes is well-formed and, sent back as request line, multiget href and MOVE
   Destination, reaches the very resource it described.
"""
import json
import os
import posixpath
import urllib.parse

from vlib import core
from vlib import x_c18 as X
from vlib.core import enc_bool, enc_opt


def enc_str(s):
    return "(@nil N)" if not s else core.enc_str(s)


def enc_bytes(b):
    return "(@nil N)" if not b else core.enc_bytes(b)


HEADER = """From Coq Require Import List NArith Bool String.
Import ListNotations.
Require Import RV.Lib.PyStr RV.Model.Path RV.Model.Url.
Open Scope N_scope.
Definition eq_pair (a b : pystr * pystr) := eqs (fst a) (fst b) && eqs (snd a) (snd b).
Definition up3 (s : pystr) : option (pystr * (pystr * pystr)) :=
  match urlparse s with UOk u => Some (u_scheme u, (u_netloc u, u_path u)) | UValueError => None | UOutside => Some ([0], ([0], [0])) end.
Definition eq_up3 (a b : option (pystr * (pystr * pystr))) :=
  match a, b with
  | Some (x1, (x2, x3)), Some (y1, (y2, y3)) => eqs x1 [0] || (eqs x1 y1 && eqs x2 y2 && eqs x3 y3)
  | Some (x1, _), None => eqs x1 [0]
  | None, None => true
  | _, _ => false
  end.
(* canonical text of a decoding result *)
Definition show_dres (base : pystr) (d : dres) : pystr :=
  match d with
  | DOk p => match make_href base p with Some h => str "ok:" ++ h | None => str "ok-unencodable" end
  | DSkip => str "skip" | DRemote => str "remote" | DRaise => str "raise" | DOutside => str "outside"
  end.
Definition eq_dres (a b : pystr) := eqs a (str "outside") || eqs a b.
Definition show_front (f : front) : pystr :=
  match f with
  | FCall b p => str "call:" ++ b ++ str "|" ++ p
  | FRedirect (Some l) => str "redirect:" ++ l
  | FRedirect None => str "error"
  | FNotFound => str "404" | FBadRequest => str "400" | FInternalError => str "500"
  end.
Definition show_oo (r : option (option pystr)) : pystr :=
  match r with None => str "none" | Some None => str "error" | Some (Some l) => str "loc:" ++ l end.
"""


def enc_pair(ab):
    return "(%s, %s)" % (enc_str(ab[0]), enc_str(ab[1]))


def py_up3(s):
    """scheme, netloc, path of urlparse, None for ValueError; the model may answer 'outside' (see eq_up3)."""
    try:
        u = urllib.parse.urlparse(s)
        return (u.scheme, u.netloc, u.path)
    except ValueError:
        return None


def enc_up3(v):
    if v is None:
        return "None"
    return "(Some (%s, (%s, %s)))" % (enc_str(v[0]), enc_str(v[1]), enc_str(v[2]))


def py_utf8_encode(s):
    try:
        return s.encode("utf-8")
    except UnicodeEncodeError:
        return None


def py_quote(s):
    try:
        return urllib.parse.quote(s)
    except UnicodeEncodeError:
        return None


def enc_optbytes(b):
    return "None" if b is None else "(Some %s)" % enc_bytes(b)


def run_suite(ctx, tag, fn, cases, ie, oe, eqb, key=None):
    """One differential suite; records obligation and coverage.  Returns the list of bad indices (or None)."""
    ctx.count("cases:" + tag, len(cases))
    for i, o in cases:
        k = key(i) if key else (i if isinstance(i, (str, bytes)) else repr(i))
        ctx.case((tag, k), nontrivial=True)
    bad = ctx.diff_cases("c18_" + tag, HEADER, fn, cases, ie, oe, eqb)
    if bad is None:
        return None
    ok = not bad
    ctx.obligation("correspondence:%s" % tag, ok,
                   "" if ok else "model differs from implementation on %d cases, first: %r" % (len(bad), cases[bad[0]]))
    if bad:
        ctx.extra.setdefault("disagreements", {})[tag] = [repr(cases[b]) for b in bad[:5]]
    return bad


# ------------------------------------------------------------------------------- 2a. CPython functions
def stdlib_suites(ctx):
    rng = ctx.rng
    alpha = ["/", "%", "4", "1", "a", "F", "?", "#", ";", ":", " ", "\u00e9", "z"]
    L = ctx.n(3, 4)
    small = list(X.small_strings(alpha, L))
    rnd = [X.rand_url(rng, 12) for _ in range(ctx.n(1500, 40000))]
    names = [X.rand_component(rng, 10, allow_dot_start=True) for _ in range(ctx.n(600, 20000))]
    # every code point class, incl. surrogates (quote raises) and the boundaries of the UTF-8 lengths
    cps = [0, 1, 0x1f, 0x20, 0x25, 0x2f, 0x7e, 0x7f, 0x80, 0x7ff, 0x800, 0xfff, 0x1000, 0xd7ff, 0xd800, 0xdbff, 0xdc00, 0xdfff,
           0xe000, 0xfffd, 0xffff, 0x10000, 0x3ffff, 0x40000, 0x10ffff]
    cp_strings = [chr(c) for c in cps] + [chr(a) + chr(b) for a in cps[:8] for b in cps[8:]] + \
                 [chr(rng.randrange(0x110000)) + chr(rng.randrange(0x110000)) for _ in range(ctx.n(300, 5000))]
    strs = small + rnd + names + cp_strings

    # bytes: all 1- and 2-byte sequences over the boundary bytes, 3/4-byte ones sampled + random utf8-ish
    bb = [0x00, 0x41, 0x7f, 0x80, 0x8f, 0x90, 0x9f, 0xa0, 0xbf, 0xc0, 0xc1, 0xc2, 0xdf, 0xe0, 0xe1, 0xec, 0xed, 0xee, 0xef, 0xf0,
          0xf1, 0xf3, 0xf4, 0xf5, 0xff]
    byte_cases = [bytes([a]) for a in range(256)] + [bytes([a, b]) for a in bb for b in bb]
    tri = [bytes([a, b, c]) for a in bb[9:] for b in bb[3:9] for c in bb[1:10]]
    quad = [bytes([a, b, c, d]) for a in bb[19:] for b in bb[3:9] for c in bb[3:10] for d in bb[1:10]]
    rng.shuffle(tri)
    rng.shuffle(quad)
    byte_cases += tri[:ctx.n(1200, len(tri))] + quad[:ctx.n(800, len(quad))]
    byte_cases += [X.rand_bytes_utf8ish(rng) for _ in range(ctx.n(1500, 30000))]

    run_suite(ctx, "utf8_encode", "utf8_encode", [(s, py_utf8_encode(s)) for s in cp_strings + names[:300]],
              enc_str, enc_optbytes, "eq_opt_str")
    run_suite(ctx, "utf8_decode", "utf8_decode", [(b, b.decode("utf-8", "replace")) for b in byte_cases],
              enc_bytes, enc_str, "eqs", key=lambda b: b.hex())
    run_suite(ctx, "quote", "quote", [(s, py_quote(s)) for s in strs], enc_str, enc_opt(enc_str), "eq_opt_str")
    run_suite(ctx, "quote_from_bytes", "quote_from_bytes",
              [(b, urllib.parse.quote_from_bytes(b)) for b in byte_cases[:ctx.n(1500, 20000)]],
              enc_bytes, enc_str, "eqs", key=lambda b: b.hex())
    # unquote: strings as they are, plus quoted forms with damage (lower-case hex, truncated escapes)
    unq = list(strs)
    for s in names + rnd[:500]:
        q = py_quote(s)
        if q is None:
            continue
        unq.append(q)
        if rng.random() < 0.5:
            unq.append(q.lower())
        if q and rng.random() < 0.5:
            i = rng.randrange(len(q))
            unq.append(q[:i] + q[i + 1:])
    for b in byte_cases[:ctx.n(2500, 40000)]:
        unq.append("".join("%%%02X" % x for x in b))
        unq.append("".join(rng.choice(["%%%02x" % x, chr(x) if x < 128 else "%%%02X" % x]) for x in b))
    run_suite(ctx, "unquote", "unquote", [(s, urllib.parse.unquote(s)) for s in unq], enc_str, enc_str, "eqs")
    ascii_runs = [s for s in unq if s.isascii()][:ctx.n(3000, 40000)]
    run_suite(ctx, "unquote_to_bytes", "unquote_to_bytes",
              [(s.encode("ascii"), urllib.parse.unquote_to_bytes(s)) for s in ascii_runs], enc_bytes, enc_bytes, "eqs",
              key=lambda b: b.hex())
    # urlparse: scheme / netloc / path
    urls = small + rnd
    hosts = ["127.0.0.1", "localhost:5232", "h", "u:p@h:80", "h:", "h:x", "[::1]", "[::1", "::1]", "h\u00e9", "", "a@b@c:1", "H:443"]
    for _ in range(ctx.n(800, 20000)):
        urls.append(rng.choice(["http://", "https://", "//", "HtTp://", "ftp://", "x-y+z.1://", "1a://", "mailto:", "", "http:/", "http:",
                                 " http://", "ht\ntp://", "tel://", "dav://"])
                    + rng.choice(hosts) + X.rand_url(rng, 8))
    run_suite(ctx, "urlparse", "up3", [(u, py_up3(u)) for u in urls], enc_str, enc_up3, "eq_up3")
    ctx.samples.append(dict(function="unquote", input="%C3%A9%zz%c3", output=urllib.parse.unquote("%C3%A9%zz%c3")))
    return strs, names


def run(ctx):
    ctx.rule = ("string suites: exhaustive strings up to length L over {/ % 4 1 a F ? # ; : space e-acute z}, all single bytes, all "
                "pairs and sampled 3-4 byte sequences over the UTF-8 boundary bytes, random URL-ish strings and names over the "
                "property's character set; distinct by (function, input).  request suites: one case = (prefix source, prefix, "
                "name, channel); non-trivial = name or prefix contains a character that quote() changes")
    ctx.assumptions += [
        "Python str = list of code points; hrefs are emitted only for names made of Unicode scalar values (a lone surrogate, "
        "possible only for a file put into the folder by hand under a non-UTF-8 name, makes quote() raise -> 500)",
        "base prefix is '' or a sanitised path without trailing slash (an unnormalised X-Script-Name such as /a//b is a "
        "configuration error: nothing below it is reachable)",
        "request targets are origin-form and ASCII (RFC 9112); http.server's own request-line parsing before get_environ is CPython's",
        "bracketed (IPv6) and non-ASCII netlocs in Destination / href are outside the model (ipaddress, NFKC checks of urlsplit)",
    ]
    ctx.prove()
    stdlib_suites(ctx)
