"""C07 -- Sync-token deltas always bring a client to the server's current state.

1. proof: Props/C07.v (Model/Sync.v; Proofs/Sync{Lemmas,Inv,Thms,Examples}.v) -- for ALL histories and configurations.
2. correspondence (tie K): the model is run inside Coq (vm_compute) on the operation sequence the real server
   (in-process, logical clock) accepted; per operation the black-box result (refused | token id + delta with
   ETags / 404) and the white-box content of the history and sync-token folders (entries, cached etag, history
   etag and token identities renamed by first appearance, logical mtimes) must be equal.
3. monitor (independent of the model): a simulated client per token applies each multistatus to what it held
   when the token was issued and is compared with a Depth:1 PROPFIND; up-to-date token -> empty list and the
   same token; PROPFIND sync-token == REPORT token; no refusal before max age unless collection / cache reset.
4. regression corpus (witness of the defect fixed by notes/fixes/C07-sync-clean-history.patch) and, in the
   thorough tier, the small-scope enumeration of all histories of <= 4 operations over 2 hrefs x 2 contents.
"""
import itertools
import json
import multiprocessing
import os

from vlib import core
from vlib import x_C07 as X

HEADER = """From Coq Require Import List NArith ZArith Bool.
Import ListNotations.
Require Import RV.Model.Sync RV.Model.SyncObs.
"""
MODEL_FN = "(fun p => observe0 (fst p) (snd p))"

# minimised past failures; run first on every tier.  cfg, ops
CORPUS = [
    # fixed: property=C07 -- sync() expired the history of a deleted item AFTER computing the token: the token
    # just handed out was answered with a non-empty list and another token (and PROPFIND disagreed)
    (dict(sub_item=False, sub_hist=False, sub_tok=False, max_age=100),
     [["mkcoll", 0], ["put", 0, 0, "a", 0], ["del", 0, 0], ["tick", 100], ["sync", 0, None], ["sync", 0, ["last"]]]),
    (dict(sub_item=False, sub_hist=False, sub_tok=False, max_age=100),
     [["mkcoll", 0], ["put", 0, 0, "a", 0], ["del", 0, 0], ["tick", 100], ["ptok", 0], ["sync", 0, None], ["ptok", 0]]),
    (dict(sub_item=False, sub_hist=True, sub_tok=False, max_age=0),
     [["mkcoll", 0], ["put", 0, 0, "a", 0], ["sync", 0, None], ["del", 0, 0], ["sync", 0, 0], ["sync", 0, ["last"]]]),
    # history in the cache sub-folder survives replacement / deletion of the collection
    (dict(sub_item=True, sub_hist=True, sub_tok=True, max_age=100),
     [["mkcoll", 0], ["put", 0, 0, "a", 0], ["put", 0, 1, "plan%41", 0], ["sync", 0, None], ["replace", 0, [["a", 0], ["plan%41", 1]]],
      ["sync", 0, 0], ["delcoll", 0], ["mkcoll", 0], ["sync", 0, 0], ["sync", 0, 1], ["put", 0, 0, "a", 0], ["sync", 0, 1]]),
    # MOVE over an existing item of another collection, back, and onto itself
    (dict(sub_item=False, sub_hist=False, sub_tok=False, max_age=100),
     [["mkcoll", 0], ["mkcoll", 1], ["put", 0, 0, "a", 0], ["put", 1, 1, "a", 1], ["sync", 0, None], ["sync", 1, None],
      ["move", 0, 0, 1, 1], ["sync", 0, 0], ["sync", 1, 1], ["move", 1, 1, 1, 1], ["sync", 1, 1], ["sync", 1, ["last"]],
      ["move", 1, 1, 0, 2], ["sync", 0, 0], ["sync", 1, 1]]),
    # expiry boundary: age max-1 accepted, age max refused once another hand-out has cleaned the folder
    (dict(sub_item=False, sub_hist=False, sub_tok=False, max_age=7),
     [["mkcoll", 0], ["put", 0, 0, "a", 0], ["sync", 0, None], ["put", 0, 0, "a", 1], ["tick", 6], ["sync", 0, None],
      ["sync", 0, 0], ["tick", 1], ["put", 0, 0, "a", 2], ["sync", 0, None], ["sync", 0, 0], ["sync", 0, 1]]),
    # deletion of the cache folder, modify-and-undo, delete-and-recreate
    (dict(sub_item=False, sub_hist=False, sub_tok=True, max_age=100),
     [["mkcoll", 0], ["put", 0, 0, "a", 0], ["sync", 0, None], ["put", 0, 0, "a", 1], ["put", 0, 0, "a", 0], ["sync", 0, 0],
      ["del", 0, 0], ["put", 0, 0, "a", 0], ["sync", 0, 0], ["dropcache", 0, True], ["sync", 0, 0], ["dropcache", 0, False],
      ["sync", 0, 0], ["sync", 0, None]]),
    # an item known to the token but to neither the collection nor the history any more (second loop of sync())
    (dict(sub_item=False, sub_hist=False, sub_tok=True, max_age=100),
     [["mkcoll", 0], ["put", 0, 0, "a", 0], ["put", 0, 1, "plan%41", 0], ["sync", 0, None], ["replace", 0, [["plan%41", 0]]], ["sync", 0, 0]]),
    (dict(sub_item=False, sub_hist=False, sub_tok=False, max_age=100),
     [["mkcoll", 0], ["put", 0, 0, "a", 0], ["sync", 0, None], ["del", 0, 0], ["tick", 100], ["put", 0, 1, "plan%41", 0], ["sync", 0, 0],
      ["sync", 0, ["last"]]]),
    # a token handed out again later lives on from that moment (utime branch)
    (dict(sub_item=False, sub_hist=False, sub_tok=False, max_age=100),
     [["mkcoll", 0], ["sync", 0, None], ["tick", 100], ["sync", 0, None], ["put", 0, 0, "a", 0], ["sync", 0, None], ["sync", 0, 0]]),
    # white space around the token, malformed and unknown tokens
    (dict(sub_item=False, sub_hist=False, sub_tok=False, max_age=100),
     [["mkcoll", 0], ["put", 0, 0, "a", 0], ["sync", 0, None], ["put", 0, 0, "a", 1], ["sync", 0, ["ws", 0]], ["sync", 0, ["mal", "garbage"]],
      ["sync", 0, ["mal", "   "]], ["sync", 0, 9], ["ptok", 0], ["sync", 0, None]]),
    # a deleted item's history entry crosses max_sync_token_age while nothing is written: time alone changes nothing
    (dict(sub_item=False, sub_hist=False, sub_tok=False, max_age=100),
     [["mkcoll", 0], ["put", 0, 0, "a", 0], ["put", 0, 1, "plan%41", 0], ["del", 0, 0], ["sync", 0, None], ["tick", 99], ["sync", 0, ["last"]],
      ["tick", 1], ["sync", 0, ["last"]], ["ptok", 0], ["tick", 150], ["ptok", 0], ["sync", 0, ["last"]], ["sync", 0, None]]),
    (dict(sub_item=False, sub_hist=True, sub_tok=True, max_age=7, prefix="xscript"),
     [["mkcoll", 0], ["put", 0, 0, "a", 0], ["sync", 0, None], ["del", 0, 0], ["ptok", 0], ["tick", 7], ["sync", 0, 0], ["ptok", 0],
      ["sync", 0, ["last"]], ["tick", 7], ["sync", 0, ["last"]]]),
    # server mounted below a base prefix (SCRIPT_NAME / X-Script-Name): changed AND removed hrefs carry it
    (dict(sub_item=False, sub_hist=False, sub_tok=False, max_age=100, prefix="script"),
     [["mkcoll", 0], ["mkcoll", 1], ["put", 0, 0, "a", 0], ["put", 0, 1, "plan%41", 0], ["sync", 0, None], ["del", 0, 1], ["put", 0, 0, "a", 1],
      ["sync", 0, 0], ["move", 0, 0, 1, 2], ["sync", 0, 0], ["sync", 1, None], ["ptok", 0]]),
    (dict(sub_item=False, sub_hist=True, sub_tok=True, max_age=100, prefix="xscript"),
     [["mkcoll", 0], ["put", 0, 0, "a", 0], ["put", 0, 2, "c d+\u00e9%25", 0], ["sync", 0, None], ["replace", 0, [["a", 1]]], ["sync", 0, 0],
      ["sync", 0, ["last"]]]),
    # the write of a new token file fails (ENOSPC before / in the middle of the pickle): no file may keep the token's
    # name; the token handed out afterwards must work
    (dict(sub_item=False, sub_hist=False, sub_tok=False, max_age=100),
     [["mkcoll", 0], ["put", 0, 0, "a", 0], ["syncfail", 0, None, "trunc"], ["sync", 0, None], ["put", 0, 1, "plan%41", 0], ["sync", 0, ["last"]],
      ["sync", 0, ["last"]]]),
    (dict(sub_item=False, sub_hist=False, sub_tok=True, max_age=100, prefix="script"),
     [["mkcoll", 0], ["sync", 0, None], ["put", 0, 0, "a", 0], ["syncfail", 0, 0, "enospc"], ["ptok", 0], ["del", 0, 0], ["sync", 0, ["last"]],
      ["sync", 0, 0], ["syncfail", 0, ["last"], "trunc"], ["syncfail", 0, ["mal", "garbage"], "trunc"]]),
]


# ---------------------------------------------------------------------------------- one history (worker process)
def _work(job):
    tag, cfg, ops, want_model = job
    try:
        r = X.run_history(cfg, ops, monitor=True, dumps=want_model)
    except Exception as e:          # the harness must not die silently
        import traceback
        return dict(tag=tag, cfg=cfg, ops=ops, crash=traceback.format_exc()[-1500:])
    trace = r["trace"]
    out = dict(tag=tag, cfg=cfg, ops=[t[0] for t in trace], errors=r["errors"], crash=None)
    kinds = {}
    nontrivial = False
    modified = False
    for op, acc, res, _ in trace:
        k = op[0]
        if k in ("sync", "ptok", "syncfail"):
            key = "%s:%s" % (k, res[0] if res else "-")
            if k == "syncfail":
                k = "sync"
            if k == "sync" and res and res[0] == "delta" and op[2] is not None and not (isinstance(op[2], list) and op[2][0] == "mal"):
                key += ":empty" if not res[2] else ":changes"
                if res[2] and modified:
                    nontrivial = True
            if k == "sync" and res and res[0] == "refused" and isinstance(op[2], int) and modified:
                nontrivial = True
        else:
            key = "%s:%s" % (k, "ok" if acc else "rejected")
            if acc and k in ("put", "del", "move", "replace", "delcoll"):
                modified = True
        kinds[key] = kinds.get(key, 0) + 1
    out["kinds"] = kinds
    out["tolerated"] = r.get("tolerated", 0)
    out["nontrivial"] = nontrivial
    out["results"] = [t[2] for t in trace]
    if want_model:
        inp, obs = X.model_case(cfg, trace)
        out["model_in"], out["model_obs"] = inp, obs
        # an operation the application rejected must not have touched history or tokens
        prev = None
        for op, acc, res, dump in trace:
            if not acc and prev is not None and X.ser_dump(dump) != X.ser_dump(prev):
                out["errors"].append(dict(step=-1, op=op, error="rejected operation changed the sync state"))
            prev = dump
    return out


def run_jobs(jobs, procs=14):
    if len(jobs) < 4:
        return [_work(j) for j in jobs]
    ctxm = multiprocessing.get_context("fork")
    with ctxm.Pool(processes=procs) as pool:
        return pool.map(_work, jobs, chunksize=max(1, min(50, len(jobs) // (procs * 4))))


def random_cfg(rng):
    return dict(sub_item=rng.random() < 0.3, sub_hist=rng.random() < 0.45, sub_tok=rng.random() < 0.45,
                max_age=rng.choice([100, 100, 100, 7, 7, 1, 0]),
                prefix=rng.choice([None, None, "script", "xscript"]))     # server mounted below /radicale


# small-scope alphabet: collection 0, hrefs a/b, contents 0/1
def enum_alphabet(max_age):
    return [["put", 0, 0, "a", 0], ["put", 0, 0, "a", 1], ["put", 0, 1, "plan%41", 0], ["put", 0, 1, "plan%41", 1],
            ["del", 0, 0], ["del", 0, 1], ["move", 0, 0, 0, 1], ["move", 0, 1, 0, 0],
            ["tick", max_age], ["replace", 0, [["a", 0]]], ["replace", 0, [["a", 1], ["plan%41", 0]]], ["dropcache", 0, True]]


def enum_histories(maxlen, cfg, mode):
    """mode 'all': a token after every operation, at the end every token is presented (then once more);
    mode 'aged': one token after the operations, then only time passes across the maximum age;
    mode 'one': a single token taken at position i, presented at the end (history updated lazily elsewhere)."""
    alpha = enum_alphabet(cfg["max_age"])
    for n in range(1, maxlen + 1):
        for seq in itertools.product(alpha, repeat=n):
            if mode == "aged":
                # time alone must change nothing: the token taken after the operations stays up to date while the
                # clock crosses max_sync_token_age (for history entries and for the token itself)
                m = cfg["max_age"]
                yield ([["mkcoll", 0]] + list(seq) + [["sync", 0, None], ["tick", m - 1], ["sync", 0, ["last"]], ["tick", 1],
                                                      ["sync", 0, ["last"]], ["ptok", 0], ["tick", m], ["ptok", 0], ["sync", 0, ["last"]]])
                continue
            if mode == "all":
                ops = [["mkcoll", 0], ["sync", 0, None]]
                for o in seq:
                    ops += [o, ["sync", 0, None]]
                for i in range(n + 1):
                    ops.append(["sync", 0, i])
                ops.append(["sync", 0, ["last"]])
                ops.append(["ptok", 0])
                yield ops
            else:
                for i in range(n):
                    ops = [["mkcoll", 0]] + list(seq[:i]) + [["sync", 0, None]] + list(seq[i:])
                    ops += [["sync", 0, 0], ["sync", 0, ["last"]], ["ptok", 0]]
                    yield ops


def shrink(cfg, ops, kind, budget=120):
    """Delta debugging on the operation list: keep a monitor error of the same kind."""
    def fails(o):
        try:
            r = X.run_history(cfg, o, monitor=True, dumps=False)
        except Exception:
            return False
        return any(e["error"][:25] == kind for e in r["errors"])
    cur = list(ops)
    n = 0
    changed = True
    while changed and n < budget:
        changed = False
        for i in range(len(cur) - 1, -1, -1):
            cand = cur[:i] + cur[i + 1:]
            n += 1
            if n > budget:
                break
            if fails(cand):
                cur = cand
                changed = True
    return cur


def process(ctx, results, tag, with_model):
    """Monitor verdicts + model correspondence for a batch of executed histories."""
    cases, metas = [], []
    reported = 0
    for r in results:
        if r.get("crash"):
            ctx.obligation("harness:%s" % tag, False, r["crash"])
            continue
        for k, v in r["kinds"].items():
            ctx.count("%s:%s" % (tag, k), v)
        if r.get("tolerated"):
            ctx.count("%s:207-after-injected-PermissionError(tolerated by sync.py, token may be unknown)" % tag, r["tolerated"])
        ctx.case((json.dumps(r["cfg"], sort_keys=True), json.dumps(r["ops"])), nontrivial=r["nontrivial"],
                 sample=dict(cfg=r["cfg"], ops=r["ops"][:14], results=[str(x) for x in r["results"][:14]]) if r["nontrivial"] else None)
        if r["errors"] and reported < 3:
            reported += 1
            e = r["errors"][0]
            step = e["step"] if e["step"] >= 0 else len(r["ops"]) - 1
            ops = r["ops"][:step + 1]
            small = shrink(r["cfg"], ops, e["error"][:25]) if ctx.pid == "C07" else ops
            ctx.violation("%s [%s]" % (e["error"], tag), dict(cfg=r["cfg"], ops=small, original_ops=ops, error=e["error"]),
                          signature=None)
        if with_model and "model_in" in r:
            cases.append((r["model_in"], r["model_obs"]))
            metas.append(r)
    if not with_model or not cases:
        return
    bad = ctx.diff_cases("c07_" + tag, HEADER, MODEL_FN, cases, lambda x: x, X.enc_obs, "obs_eqb", shard=150)
    if bad is None:
        return
    detail = ""
    if bad:
        r = metas[bad[0]]
        inp, obs = cases[bad[0]]
        shown = ctx.coq_show(HEADER, "let p := %s in first_diff (observe0 (fst p) (snd p)) %s 0" % (inp, X.enc_obs(obs)))
        detail = "model and implementation differ on %d of %d histories; first: cfg=%r ops=%s ; first differing accepted operation: %s" % (
            len(bad), len(cases), r["cfg"], json.dumps(r["ops"]), shown[-200:])
        ctx.extra.setdefault("disagreements", []).append(dict(cfg=r["cfg"], ops=r["ops"], where=shown[-200:]))
    ctx.obligation("correspondence:%s" % tag, not bad, detail)


def run(ctx):
    ctx.rule = ("history = configuration (cache sub-folder options, max_sync_token_age) + sequence of PUT / DELETE / MOVE / "
                "whole-collection PUT / collection DELETE / MKCALENDAR / cache-folder deletion / clock tick / REPORT "
                "sync-collection (token: none, any earlier token, padded, malformed, never issued) / PROPFIND sync-token over "
                "two calendars, three hrefs, three contents; distinct by (configuration, operation list); non-trivial = after "
                "an accepted modification a REPORT with an earlier token is answered with a non-empty delta or refused")
    ctx.assumptions += [
        "SHA-256 has no collisions on the inputs that occur and the hashed encodings (href '/' 64 hex; history etag '/' etag) are "
        "unambiguous: hashes are free constructors in the model",
        "os.scandir order is a function of the directory's entry set (it enters the token hash); the model keeps lists sorted",
        "the clock does not advance inside one request (the two time.time() calls of one sync see the same time)",
        "single process: no concurrent modification of the cache folders during a request (PermissionError / race branches not modelled)",
        "pickle round-trips the stored state; damaged cache files are out of scope",
    ]
    ctx.trusted.append("vlib/x_C07.py: logical clock substituted for radicale.storage.multifilesystem.cache.time, file mtimes of "
                       "history/token files normalised to logical time after each request, renaming of tokens / history etags / "
                       "ETags by first appearance, reading of the pickled cache files")
    ctx.prove()

    # ------------------------------------------------------------ corpus (regression cases), always with the model
    jobs = [("corpus%d" % i, cfg, ops, True) for i, (cfg, ops) in enumerate(CORPUS)]
    process(ctx, run_jobs(jobs), "corpus", True)

    # ------------------------------------------------------------ seeded random histories
    n = ctx.n(300, 6000)
    jobs = []
    for i in range(n):
        cfg = random_cfg(ctx.rng)
        ops = X.gen_history(ctx.rng, ctx.rng.randrange(6, 45), cfg["max_age"] or 50)
        jobs.append(("rnd%d" % i, cfg, ops, True))
    ctx.log("running %d random histories on the implementation" % n)
    res = run_jobs(jobs)
    ctx.log("implementation done; running the model in Coq")
    process(ctx, res, "random", True)

    # ------------------------------------------------------------ fault enumeration: errno x call of the token write
    jobs = []
    for cfg in (dict(sub_item=False, sub_hist=False, sub_tok=False, max_age=100),
                dict(sub_item=False, sub_hist=False, sub_tok=True, max_age=100, prefix="script")):
        for call in X.FAULT_CALLS:
            for en in X.ERRNOS:
                mode = "%s:%s" % (call, en)
                # the faulted REPORT presents an older token / is the first one (token folder not yet there)
                jobs.append(("fault", cfg, [["mkcoll", 0], ["put", 0, 0, "a", 0], ["sync", 0, None], ["put", 0, 1, "plan%41", 0],
                                            ["syncfail", 0, 0, mode], ["del", 0, 0], ["sync", 0, ["last"]], ["sync", 0, ["last"]],
                                            ["sync", 0, 0]], True))
                jobs.append(("fault", cfg, [["mkcoll", 0], ["put", 0, 0, "a", 0], ["syncfail", 0, None, mode], ["put", 0, 1, "plan%41", 0],
                                            ["sync", 0, ["last"]], ["sync", 0, None], ["del", 0, 0], ["sync", 0, ["last"]]], True))
    process(ctx, run_jobs(jobs), "fault", True)

    # ------------------------------------------------------------ small-scope enumeration
    base = dict(sub_item=False, sub_hist=False, sub_tok=False, max_age=100)
    allsub = dict(sub_item=True, sub_hist=True, sub_tok=True, max_age=100)
    plans = [(base, ctx.n(2, 4), "all"), (base, ctx.n(2, 3), "one"), (allsub, ctx.n(1, 3), "all"), (allsub, ctx.n(0, 2), "one"),
             (base, ctx.n(2, 3), "aged"), (allsub, ctx.n(1, 3), "aged")]
    jobs = []
    for cfg, maxlen, mode in plans:
        for i, ops in enumerate(enum_histories(maxlen, cfg, mode)):
            jobs.append(("enum", cfg, ops, ctx.quick or i % 7 == 0))
    ctx.log("small-scope enumeration: %d histories" % len(jobs))
    res = run_jobs(jobs)
    process(ctx, res, "enum", True)
    ctx.extra["small_scope"] = dict(histories=len(jobs), plans=[(c["sub_hist"], m, mode) for c, m, mode in plans])


def replay(ctx, path):
    with open(path) as f:
        rp = json.load(f)
    r = rp.get("replay", rp)
    out = X.run_history(r["cfg"], r["ops"], monitor=True, dumps=False)
    for op, acc, res, _ in out["trace"]:
        print("  %-40s %s %s" % (json.dumps(op), "ok " if acc else "rej", res))
    for e in out["errors"]:
        print("VIOLATION at step %d %s: %s" % (e["step"], json.dumps(e["op"]), e["error"]))
    return 1 if out["errors"] else 0
