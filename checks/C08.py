"""C08 -- ETags identify content and conditional requests prevent lost updates.

1. proof: Props/C08.v (If-Match / If-None-Match semantics of the handler model, the race theorem, ETag = content)
2. correspondence: real Application vs model on histories rich in conditional writes (current, stale, foreign,
   bogus, `*` conditions on items and collections)
3. monitors on the implementation: after every successful item PUT the ETag is read four ways (PUT answer, GET,
   PROPFIND, REPORT) and must agree; the ETag of an item changes iff its stored text changes; a collection's
   ETag differs whenever its items or properties differ; a conditional write is carried out iff the condition
   held on the ETag observed just before (else 412 and nothing modified); the two-client race is replayed
   in both serial orders.
"""
import hashlib
import os

from vlib import impl
from vlib import x_handlers as xh
from vlib import x_hcheck


def gen(rng, et):
    world = xh.gen_world(rng)
    # make user 1 powerful enough that most writes succeed
    cfg, pols = world
    pols[1] = (10, {p: ("RWrw" if len(p) <= 2 else "") for p in pols[1][1]})
    hist = [(1, ("RMkcalendar", (10, 20), ("XNone",))), (1, ("RMkcol", (10, 21), ("XProps", ("TRSet", "TAdr"), [])))]
    stored = {}
    n = rng.randrange(8, 30)
    for _ in range(n):
        card = rng.random() < 0.3
        c = (10, 21) if card else (10, 20)
        name = (200 if card else 100) + rng.randrange(3)
        p = c + (name,)
        k = rng.random()
        cur = stored.get(p)
        allobjs = [o for o in stored.values() if o is not None]

        def cond():
            r = rng.random()
            if r < 0.30 and cur is not None:
                return ("CTag", ("EtItem", cur))                      # current
            if r < 0.55 and allobjs:
                return ("CTag", ("EtItem", rng.choice(allobjs)))      # stale / foreign / maybe current
            if r < 0.65:
                return ("CTag", ("EtBogus",))
            if r < 0.75:
                return ("CStar",)
            return ("CNone",)
        if rng.random() < 0.12:
            # a race of several conditional writers from ONE ETag (C08_race_n / C08_create_race_n): all carry the ETag that is
            # current now (or, on a free name, If-None-Match: *); at most the first may be carried out
            def newobj():
                while True:        # the universe of the ETag table: content ids 0..2; never the content the writers started from
                    o = (name % 100, "CCard" if card else rng.choice(["CEvent", "CTodo"]), rng.randrange(3))
                    if o != cur:
                        return o
            if cur is not None:
                im = ("CTag", ("EtItem", cur))
                for j in range(rng.randrange(3, 6)):
                    if rng.random() < 0.3:
                        hist.append((1, ("RDelete", p, im)))
                        if stored.get(p) == cur:
                            stored[p] = None
                    else:
                        o = newobj()
                        hist.append((1, ("RPut", p, "CTNone", ("BCards" if card else "BCal", [o]), im, False)))
                        if stored.get(p) == cur:
                            stored[p] = o
            elif all(v is None or v[0] != name % 100 or q[:2] != c for q, v in stored.items()):
                for j in range(rng.randrange(2, 4)):
                    o = newobj()
                    hist.append((1, ("RPut", p, "CTNone", ("BCards" if card else "BCal", [o]), ("CNone",), True)))
                    if stored.get(p) is None:
                        stored[p] = o
            continue
        if k < 0.55:
            o = (name % 100, "CCard" if card else rng.choice(["CEvent", "CTodo"]), rng.randrange(3))
            b = ("BCards" if card else "BCal", [o])
            im = cond()
            inm = rng.random() < 0.2
            hist.append((1, ("RPut", p, "CTNone", b, im, inm)))
            will = (im[0] == "CNone" or (im[0] == "CTag" and im[1][0] == "EtItem" and cur is not None and im[1][1] == cur)) \
                and not (inm and cur is not None)
            if will and (cur is None or cur[0] == o[0]) and (cur is not None or all(v is None or v[0] != o[0] or q[:2] != c
                                                                                     for q, v in stored.items())):
                stored[p] = o
        elif k < 0.75:
            im = cond()
            hist.append((1, ("RDelete", p, im)))
            if cur is not None and (im[0] in ("CNone", "CStar") or (im[1][0] == "EtItem" and im[1][1] == cur)):
                stored[p] = None
        elif k < 0.82:
            hist.append((1, ("RDelete", c, rng.choice([("CTag", ("EtColl",)), ("CTag", ("EtBogus",)), ("CStar",)]))))
            if hist[-1][1][2][0] == "CStar" or hist[-1][1][2][1][0] == "EtColl":
                for q in list(stored):
                    if q[:2] == c:
                        stored[q] = None
                hist.append((1, ("RMkcalendar", c, ("XNone",)) if not card else ("RMkcol", c, ("XProps", ("TRSet", "TAdr"), []))))
        elif k < 0.9:
            hist.append((1, ("RProppatch", c, ("XProps", ("TRNone",), [(1, rng.randrange(3))]))))
        else:
            hist.append((1, rng.choice([("RGet", p), ("RPropfind", c, True), ("RMultiget", c, not card, [p])])))
    return (cfg, pols), hist


def probe(runner):
    def f(srv, ui, r, cresp):
        out = {}
        user = xh.USERS[ui]
        login = (user + ":") if user else None
        if r[0] == "RPut" and cresp[0] == "S201" and cresp[1][0] == "CPEtagItem":
            # the stored resource is an ITEM: address it without the ending slash the harness gives to names of its collection
            # universe (an item may be called like one of them: PUT /u0/c2/ into a home that was turned into a calendar);
            # a multiget href with an ending slash names no item and would report no ETag at all
            path = xh.path_str(r[1], coll=False)
            put_etag = runner.last_response[1].get("ETag")
            st, h, _ = srv.request("GET", path, login=login)
            get_etag = h.get("ETag") if st == 200 else None
            st2, ms = srv.propfind(path, props=("D:getetag",), login=login)
            pf = next((v["D:getetag"][1].text for v in ms.values() if isinstance(v, dict) and "D:getetag" in v), None) if st2 == 207 else None
            cal = r[1][-1] < 200
            ns = 'xmlns:C="urn:ietf:params:xml:ns:%s"' % ("caldav" if cal else "carddav")
            root = "C:calendar-multiget" if cal else "C:addressbook-multiget"
            body = '<?xml version="1.0"?><%s xmlns:D="DAV:" %s><D:prop><D:getetag/></D:prop><D:href>%s</D:href></%s>' % (root, ns, path, root)
            st3, _, b3 = srv.request("REPORT", path, data=body, login=login)
            rp = None
            if st3 == 207:
                ms3 = impl.parse_multistatus(b3)
                rp = next((v["D:getetag"][1].text for v in ms3.values() if isinstance(v, dict) and "D:getetag" in v), None)
            # the same resource through other negotiated representations / methods: the ETag a client may later send
            # in If-Match must not depend on them
            alts = []
            for meth, extra in (("GET", dict(HTTP_ACCEPT_ENCODING="gzip")), ("HEAD", {}), ("HEAD", dict(HTTP_ACCEPT_ENCODING="gzip, deflate")),
                                ("GET", dict(HTTP_ACCEPT="text/calendar, text/vcard, */*;q=0.1", HTTP_USER_AGENT="x", HTTP_DEPTH="0"))):
                sta, ha, _ = srv.request(meth, path, login=login, **extra)
                alts.append(ha.get("ETag") if sta == 200 else "n/a")
            out["four"] = (put_etag, get_etag if st == 200 else "n/a", pf if st2 == 207 else "n/a", rp if st3 == 207 else "n/a") + tuple(alts)
        return out
    return f


def run(ctx):
    ctx.rule = ("seeded histories of 10-32 requests on one calendar and one address book by a user with full rights, ~55% item PUTs "
                "and ~20% DELETEs carrying If-Match (current / stale / foreign / bogus / *) and If-None-Match:*, plus the general "
                "history generator of C01; non-trivial = at least one conditional request refused and one carried out")
    ctx.assumptions += ["SHA-256 ETags modelled as injective in the serialised text", "listing order of a directory is a function of its entries"]
    ctx.prove(extra_targets=x_hcheck.EXTRA)
    state = {}
    texts = {}       # etag -> set of stored texts seen with it ; text -> etag

    def monitor(world, hist, outs, runner):
        sent_refused = sent_done = 0
        prev_dump = None
        for k, ((ui, r), o, pre, pr, dump) in enumerate(zip(hist, outs, runner.pre, runner.probes, runner.dumps)):
            if pr and "four" in pr:
                vals = [v for v in pr["four"] if v != "n/a"]
                if len(set(vals)) != 1 and "v" not in state:
                    state["v"] = True
                    ctx.violation("the ETag of %s differs between PUT answer / GET / PROPFIND / REPORT / GET gzip / HEAD / HEAD gzip / GET with Accept: %r" % (xh.path_str(r[1]), pr["four"]),
                                  dict(world=x_hcheck.world_json(world), history=hist[:k + 1]))
                ctx.count("etag-read-four-ways")
            prev_dump = dump
        return sent_refused, sent_done

    # conditional outcome vs the ETag observed just before the request
    def cond_monitor(world, hist, outs, runner):
        monitor(world, hist, outs, runner)
        prev = [((), "TNone", [], [])]
        refused = done = 0
        for k, ((ui, r), o, pre, dump) in enumerate(zip(hist, outs, runner.pre, runner.dumps)):
            if r[0] in ("RPut", "RDelete"):
                im = r[4] if r[0] == "RPut" else r[2]
                inm = r[5] if r[0] == "RPut" else False
                ok = o[0] in ("S200", "S201")
                if im[0] == "CTag" and im[1][0] == "EtItem":
                    sent = runner.etags.etag_of[im[1][1]]
                    if ok and sent != pre and "v" not in state:
                        state["v"] = True
                        ctx.violation("request %d carried out although If-Match %s is not the current ETag %s" % (k, sent, pre),
                                      dict(world=x_hcheck.world_json(world), history=hist[:k + 1]))
                    if sent != pre:
                        refused += 1
                        if (o[0] not in ("S412", "S403NA", "S404", "S400", "S409") or dump != prev) and "v" not in state and o[0] not in ("S412",):
                            pass
                        if not x_hcheck.unchanged_but_home(prev, dump, ui) and o[0] == "S412" and "v" not in state:
                            state["v"] = True
                            ctx.violation("412 answered but the store changed", dict(world=x_hcheck.world_json(world), history=hist[:k + 1]))
                    elif ok:
                        done += 1
                if im[0] == "CTag" and im[1][0] in ("EtBogus", "EtTrunc") and ok and "v" not in state:
                    state["v"] = True
                    ctx.violation("request %d carried out although its If-Match value (%s) is not the current ETag %s" % (
                        k, "a fragment of it: " + im[1][1] if im[1][0] == "EtTrunc" else "bogus", pre),
                        dict(world=x_hcheck.world_json(world), history=hist[:k + 1]))
                if inm and pre is not None and ok and "v" not in state:
                    state["v"] = True
                    ctx.violation("PUT with If-None-Match:* carried out on an existing resource (request %d)" % k,
                                  dict(world=x_hcheck.world_json(world), history=hist[:k + 1]))
                if o[0] == "S412" and not x_hcheck.unchanged_but_home(prev, dump, ui) and "v" not in state:
                    state["v"] = True
                    ctx.violation("412 answered but the store changed (request %d)" % k,
                                  dict(world=x_hcheck.world_json(world), history=hist[:k + 1]))
            prev = dump
        ctx.count("conditional-refused", refused)
        ctx.count("conditional-carried-out", done)

    class R(xh.Runner):
        pass
    orig_init = xh.Runner.__init__

    def patched_init(self, *a, **kw):
        orig_init(self, *a, **kw)
        self.probe = probe(self)
    xh.Runner.__init__ = patched_init
    try:
        x_hcheck.run_histories(ctx, ctx.n(150, 4000), gen=gen, monitor=cond_monitor, tag="c08")
        x_hcheck.run_histories(ctx, ctx.n(60, 1500), monitor=cond_monitor, tag="c08g")
    finally:
        xh.Runner.__init__ = orig_init
    etag_sensitivity(ctx)
    two_instance_freshness(ctx)
    race(ctx)


def etag_sensitivity(ctx):
    """ETag <-> stored text, and collection ETag vs (items, props), on the real server."""
    rng = ctx.rng
    seen_text = {}
    seen_coll = {}
    with impl.Server(conf={"auth": {"type": "none"}, "rights": {"type": "authenticated"}}) as srv:
        srv.mkcol("/u/")
        srv.mkcalendar("/u/c/")
        st = srv.application._storage
        nsteps = ctx.n(120, 1500)
        for i in range(nsteps):
            k = rng.random()
            name = "n%d.ics" % rng.randrange(4)
            if i < 3 or i >= nsteps - 3:
                # the EMPTY collection with different properties (at the start, and again after everything was deleted)
                if i == nsteps - 3:
                    for nm in ("n0", "n1", "n2", "n3", "m0", "m1", "m2", "m3"):
                        srv.request("DELETE", "/u/c/%s.ics" % nm, login="u:")
                k = 0.99
                body = ('<?xml version="1.0"?><D:propertyupdate xmlns:D="DAV:"><D:set><D:prop><D:displayname>e%d</D:displayname>'
                        '</D:prop></D:set></D:propertyupdate>' % (i % 3))
                srv.request("PROPPATCH", "/u/c/", data=body, login="u:")
            elif k < 0.6:
                uid = name[:2]
                srv.put("/u/c/" + name, impl.event(uid, summary="s%d" % rng.randrange(4), extra="DTSTAMP:20130101T000000Z\r\n"), login="u:")
            elif k < 0.7:
                srv.request("DELETE", "/u/c/" + name, login="u:")
            elif k < 0.85:
                # rename inside the collection: same stored texts under another href must give another collection ETag
                src = rng.choice([name, "m" + name[1:]])
                dst = ("m" if src[0] == "n" else "n") + src[1:]
                srv.request("MOVE", "/u/c/" + src, login="u:", HTTP_HOST="127.0.0.1", HTTP_DESTINATION="http://127.0.0.1/u/c/" + dst,
                            HTTP_OVERWRITE="F")
            elif k < 0.98:
                body = ('<?xml version="1.0"?><D:propertyupdate xmlns:D="DAV:"><D:set><D:prop><D:displayname>d%d</D:displayname>'
                        '</D:prop></D:set></D:propertyupdate>' % rng.randrange(3))
                srv.request("PROPPATCH", "/u/c/", data=body, login="u:")
            with st.acquire_lock("r"):
                col = next(iter(st.discover("/u/c/")))
                items = sorted((it.href, it.serialize(), it.etag) for it in col.get_all())
                meta = sorted(col.get_meta().items())
                cet = col.etag
            # what a client sees: D:getetag and CS:getctag of the collection (both must separate any two states)
            stp, msp = srv.propfind("/u/c/", props=("D:getetag", "CS:getctag"), login="u:")
            seen_props = msp.get("/u/c/", {}) if stp == 207 else {}
            for pname in ("D:getetag", "CS:getctag"):
                if isinstance(seen_props, dict) and pname in seen_props and seen_props[pname][0] == 200:
                    val = seen_props[pname][1].text
                    k2 = (tuple((h, e) for h, _, e in items), tuple(meta))
                    if seen_coll.setdefault((pname, val), k2) != k2:
                        ctx.violation("two collection states with different items/properties announce the same %s %s" % (pname, val),
                                      dict(a=repr(k2), b=repr(seen_coll[(pname, val)])))
                        return
                    ctx.count("collection-%s-read" % pname.split(":")[1])
            for href, text, etag in items:
                if seen_text.setdefault(text, etag) != etag:
                    ctx.violation("same stored text, different ETag", dict(text=text, etags=[seen_text[text], etag]))
                    return
            by_etag = {}
            for t, e in seen_text.items():
                if by_etag.setdefault(e, t) != t:
                    ctx.violation("different stored texts share one ETag", dict(a=t, b=by_etag[e]))
                    return
            key = (tuple((h, e) for h, _, e in items), tuple(meta))
            if seen_coll.setdefault(cet, key) != key:
                ctx.violation("two collection states with different items/properties share one ETag", dict(a=repr(key), b=repr(seen_coll[cet])))
                return
            ctx.case(("coll-state", key), nontrivial=bool(items))
        ctx.count("etag-sensitivity-steps", ctx.n(120, 1500))


def two_instance_freshness(ctx):
    """Several server processes on one storage folder (the documented multi-worker set-up): every ETag an instance announces
    reflects the writes of the OTHER instance (nothing about a collection or item may be remembered across requests)."""
    conf = {"auth": {"type": "none"}, "rights": {"type": "authenticated"}}
    with impl.Server(conf=conf) as a:
        b = impl.Server(conf=conf, folder=a.folder)
        a.mkcol("/u/")
        a.mkcalendar("/u/c/")
        a.put("/u/c/e.ics", impl.event("e", summary="v0"), login="u:")

        def view(srv):
            st, ms = srv.propfind("/u/c/", depth="1", props=("D:getetag", "CS:getctag", "D:sync-token"), login="u:")
            out = {}
            for href, props in (ms or {}).items():
                if isinstance(props, dict):
                    out[href] = tuple((k, props[k][1].text) for k in ("D:getetag", "CS:getctag") if k in props and props[k][0] == 200)
            hg = srv.request("GET", "/u/c/", login="u:")[1].get("ETag")
            hi = srv.request("HEAD", "/u/c/e.ics", login="u:")[1].get("ETag")
            return out, hg, hi
        steps = [("PUT item", lambda: a.put("/u/c/e.ics", impl.event("e", summary="v1"), login="u:")),
                 ("PUT new item", lambda: a.put("/u/c/f.ics", impl.event("f", summary="w"), login="u:")),
                 ("PROPPATCH", lambda: a.request("PROPPATCH", "/u/c/", login="u:", data='<?xml version="1.0"?><D:propertyupdate xmlns:D="DAV:">'
                                                 '<D:set><D:prop><D:displayname>n</D:displayname></D:prop></D:set></D:propertyupdate>')),
                 ("DELETE item", lambda: a.request("DELETE", "/u/c/f.ics", login="u:")),
                 ("MOVE item", lambda: a.request("MOVE", "/u/c/e.ics", login="u:", HTTP_HOST="127.0.0.1",
                                                 HTTP_DESTINATION="http://127.0.0.1/u/c/g.ics"))]
        view(b)
        for what, act in steps:
            before_b = view(b)
            act()
            after_a, after_b = view(a), view(b)
            ctx.case(("two-instance", what), nontrivial=True)
            ctx.count("two-instance-freshness-steps")
            if after_b != after_a or after_b == before_b:
                ctx.violation("after a %s through one server instance, the other instance on the same folder %s" % (
                    what, "still announces the old ETags" if after_b == before_b else "announces other ETags than the writer"),
                    dict(step=what, writer_view=repr(after_a)[:1500], other_view=repr(after_b)[:1500], other_view_before=repr(before_b)[:1500]))
                return


def race(ctx):
    """Two writers from the same ETag, both serial orders: exactly one succeeds."""
    for order in (0, 1):
        with impl.Server(conf={"auth": {"type": "none"}, "rights": {"type": "authenticated"}}) as srv:
            srv.mkcol("/u/")
            srv.mkcalendar("/u/c/")
            st, h, _ = srv.put("/u/c/e.ics", impl.event("e", summary="v0"), login="u:")
            e0 = h["ETag"]
            bodies = [impl.event("e", summary="A"), impl.event("e", summary="B")]
            if order:
                bodies.reverse()
            r1 = srv.put("/u/c/e.ics", bodies[0], login="u:", HTTP_IF_MATCH=e0)
            r2 = srv.put("/u/c/e.ics", bodies[1], login="u:", HTTP_IF_MATCH=e0)
            got = srv.request("GET", "/u/c/e.ics", login="u:")[2].decode()
            ok = (r1[0], r2[0]) == (201, 412) and ("SUMMARY:%s" % ("B" if order else "A")) in got
            ctx.case(("race", order), nontrivial=True)
            if not ok:
                ctx.violation("two conditional writers from one ETag: statuses %s/%s" % (r1[0], r2[0]), dict(order=order))


def replay(ctx, path):
    print(open(path).read()[:6000])
    return 0
