"""C01 -- Stored data follows the DAV object model for every request history.

1. proof: Props/C01.v -- what the ideal store (Model/Handlers.v) holds after each kind of request, frame conditions
2. correspondence: the real Application vs the model on seeded histories: outcome class + payload of EVERY
   request and the final store on disk; both back-ends (multifilesystem, multifilesystem_nolock) and the cache
   layout / key-mode options must give identical answers
3. monitor (independent of the model): a direct statement of "last write wins / deleted and moved-away names are
   gone / a replaced collection holds only the new objects / nothing else changes" over directory dumps taken
   after every request.
"""
from vlib import x_handlers as xh
from vlib import x_hcheck

LAYOUTS = [{},
           {"use_cache_subfolder_for_item": "True", "use_cache_subfolder_for_history": "True",
            "use_cache_subfolder_for_synctoken": "True", "use_mtime_and_size_for_item_cache": "True"}]


def as_map(dump):
    return {p: (tag, tuple(props), dict(items)) for p, tag, props, items in dump}


def frame_monitor(ctx, state, world, hist, outs, runner):
    prev = {(): ("TNone", (), {})}
    for k, ((ui, r), o, dump) in enumerate(zip(hist, outs, runner.dumps)):
        cur = as_map(dump)
        kind, p = r[0], tuple(r[1])
        ok = o[0] in ("S200", "S201", "S204", "S207")
        user = xh.USERS[ui]
        home = (xh.USER_NAME[user],) if user else None
        err = None
        # the gate may have created the user's home
        base = dict(prev)
        if home and home not in base and home in cur and "W" in world[1][ui][1].get(home, ""):
            base[home] = ("TNone", (), {})        # created by the gate (needs W on the home) before the handler ran
        if not ok or kind in ("RGet", "RPropfind", "RMultiget", "RQuery"):
            if cur != base:
                err = "request answered %s but the stored data changed" % o[0]
        elif kind == "RPut" and o[1][0] == "CPEtagItem":
            want = dict(base)
            par = p[:-1]
            if par not in base:
                err = "item stored in a collection that did not exist"
            else:
                t, pr, items = base[par]
                items = dict(items)
                items[p[-1]] = o[1][1]
                want[par] = (t, pr, items)
                if cur != want:
                    err = "after PUT of one item the store is not 'previous store with that item replaced'"
        elif kind == "RPut":
            want = {q: v for q, v in base.items() if q[:len(p)] != p}
            newc = cur.get(p)
            body = r[3]
            objs = body[1] if len(body) > 1 else []
            exp_items = {}
            for (u, comp, cid) in objs:
                exp_items[(200 if comp == "CCard" else 100) + u] = (u, comp, cid if comp == "CCard" else cid + 10)
            if newc is None or dict(newc[2]) != exp_items or newc[1] != ():
                err = "a replaced collection does not contain exactly the new objects: %r vs %r" % (newc, exp_items)
            else:
                want[p] = newc
                if cur != want:
                    err = "whole-collection PUT changed something outside the collection"
        elif kind == "RDelete":
            if p in base:
                want = {q: v for q, v in base.items() if q[:len(p)] != p}
                if p == ():
                    want = {(): ("TNone", (), {})}
            else:
                want = dict(base)
                t, pr, items = base[p[:-1]]
                items = dict(items)
                items.pop(p[-1], None)
                want[p[:-1]] = (t, pr, items)
            if cur != want:
                err = "after DELETE the store is not 'previous store without that name'"
        elif kind == "RMove":
            to = tuple(r[3])
            want = dict(base)
            t, pr, items = base[p[:-1]]
            items = dict(items)
            obj = items.pop(p[-1])
            want[p[:-1]] = (t, pr, items)
            t2, pr2, items2 = want[to[:-1]]
            items2 = dict(items2)
            items2[to[-1]] = obj
            want[to[:-1]] = (t2, pr2, items2)
            if cur != want:
                err = "after MOVE the store is not 'source gone, destination holds the object, rest unchanged'"
        elif kind in ("RMkcol", "RMkcalendar"):
            want = dict(base)
            if p in base or p not in cur or cur[p][2] != {}:
                err = "MKCOL/MKCALENDAR did not create a new empty collection"
            else:
                want[p] = cur[p]
                if cur != want:
                    err = "MKCOL/MKCALENDAR changed something else"
        elif kind == "RProppatch":
            want = dict(base)
            if p not in cur or p not in base or cur[p][0] != base[p][0] or cur[p][2] != base[p][2]:
                err = "PROPPATCH changed the type or the items of the collection"
            else:
                want[p] = cur[p]
                if cur != want:
                    err = "PROPPATCH changed something else"
        if err and "v" not in state:
            state["v"] = True
            ctx.violation("request %d (%s): %s" % (k, kind, err),
                          dict(world=x_hcheck.world_json(world), history=hist[:k + 1], before=repr(sorted(prev.items())),
                               after=repr(sorted(cur.items()))))
        prev = cur


def run(ctx):
    ctx.rule = ("seeded request histories (5-30 requests; MKCOL, MKCALENDAR, PUT item / whole collection, DELETE, MOVE, PROPPATCH, "
                "GET, PROPFIND 0/1, REPORT multiget) by 3 users under generated rights tables over 4 collections x 5 names x 4 UIDs "
                "x 3 contents, calendars and address books; each history is run on multifilesystem and multifilesystem_nolock and "
                "with two cache layouts; non-trivial = a successful write and a non-empty final store; distinct by (history, world)")
    ctx.assumptions += ["bodies outside the abstract grammar (VSUBSCRIBED, VLIST, several components per UID, missing UIDs) are not generated",
                        "SHA-256 ETags modelled as injective in the content"]
    ctx.prove(extra_targets=x_hcheck.EXTRA)
    state = {}
    x_hcheck.run_histories(ctx, ctx.n(160, 5000), storage_types=("multifilesystem", "multifilesystem_nolock"), layouts=LAYOUTS,
                           monitor=lambda w, h, o, r: frame_monitor(ctx, state, w, h, o, r), tag="c01", disagreement_is_violation=True)
    # bodies outside the abstract grammar (adversarial UIDs, overrides): "a replaced collection contains only the new objects"
    from vlib import x_scenarios
    x_scenarios.whole_upload_fidelity(ctx, ctx.n(80, 2000))
    x_scenarios.truncated_uploads(ctx)


def replay(ctx, path):
    print(open(path).read()[:6000])
    return 0
