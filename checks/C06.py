"""C06 -- Requests cannot escape the storage folder or touch internal files.

1. proof: Props/C06.v over the regenerated Gen/PathGen.v, Gen/SyncTokGen.v (tie T)
2. correspondence (tie K): Model.Path / Lib.PyStr functions vs the real pathutils / posixpath on
   exhaustive small strings and random hostile strings
3. monitors on the implementation: shape of sanitize_path, confinement of path_to_filesystem, token names
4. trace level: the real server under strace with hostile strings in every client-controlled channel;
   every file-system call must stay inside the storage folder (reads also inside the interpreter/library
   prefixes), decoys are never touched, reserved names are never served, the hook gets literal arguments.
"""
import ast
import itertools
import json
import os
import re
import shutil
import sys
import tempfile

from vlib import core, trace
from vlib.core import enc_str, enc_bool, enc_opt

HEADER = """From Coq Require Import List NArith Bool String.
Import ListNotations.
Require Import RV.Lib.PyStr RV.Model.Path RV.Model.Shell.
Open Scope N_scope.
Definition eq_os (a b : option pystr) := match a, b with Some x, Some y => eqs x y | None, None => true | _, _ => false end.
"""

ALPHA = ["a", ".", "/", "~", "\\", "é"]
HOSTILE_PARTS = ["..", ".", "", "a", "b.ics", ".Radicale.cache", ".Radicale.props", ".Radicale.lock", ".Radicale.tmp-x",
                 "x~", "~", ".hidden", "a\\b", "éè", "%2e%2e", "..%2f", "c:", "a b", "item", "sync-token",
                 "‮", "a" * 40, "...", ". .", "..a", "a..", "\t", "user",
                 # characters that Unicode normalisation / case folding turns into '.', '/', '\\', '~' (a fold AFTER the
                 # safety check re-creates the refused names), composed vs decomposed spellings
                 "\u2025", "\u2024\u2024", "\uff0e\uff0e", "\u2025\uff0f\u2025\uff0fdecoy.txt", "\uff0eRadicale.props", "\uff0ehidden.ics",
                 "\u2024Radicale.cache", "x\uff5e", "b.ics\uff5e", "a\uff0fb", "a\uff3cb", "\u2026", "\ufe52\ufe52", "cafe\u0301", "caf\u00e9",
                 "\u2025\u2215decoy.txt", "\u017f", "\u212a"]
UNICODE_FIXED = ["/user/cal/\u2025\uff0f\u2025\uff0f\u2025\uff0fdecoy.txt", "/user/cal/\uff0eRadicale.props", "/user/cal/e1.ics\uff5e",
                 "/user/cal/\uff0ehidden.ics", "/user/\uff0e\uff0e/\uff0e\uff0e/decoy.txt", "/\u2025/decoy.txt", "/user/cal/\u2025",
                 "/user/cal/\u2024Radicale.cache\uff0fitem\uff0fe1.ics", "/user/cal/a\uff3c\u2025\uff3cdecoy.txt", "/user/cal/cafe\u0301.ics"]


def small_strings(maxlen):
    for n in range(maxlen + 1):
        for t in itertools.product(ALPHA, repeat=n):
            yield "".join(t)


def random_path(rng):
    n = rng.randint(0, 7)
    parts = [rng.choice(HOSTILE_PARTS) for _ in range(n)]
    s = "/".join(parts)
    if rng.random() < 0.6:
        s = "/" + s
    if rng.random() < 0.3:
        s += "/"
    if rng.random() < 0.15:
        s = "/" + s
    if rng.random() < 0.1:
        s = "//" + s
    return s


def load_check_token_name():
    """The nested function of sync(): compiled from the current source."""
    src = open(os.path.join(core.REPO, "radicale/storage/multifilesystem/sync.py")).read()
    tree = ast.parse(src)
    for node in ast.walk(tree):
        if isinstance(node, ast.FunctionDef) and node.name == "check_token_name":
            mod = ast.Module(body=[node], type_ignores=[])
            ns = {}
            exec(compile(mod, "sync.py:check_token_name", "exec"), ns)
            return ns["check_token_name"]
    raise RuntimeError("check_token_name not found")


# ---------------------------------------------------------------------------------- monitors (direct property on impl)
def mon_sanitize(s, out):
    if not out.startswith("/"):
        return "does not start with /"
    body = out[1:]
    if body.endswith("/"):
        body = body[:-1]
        if not body:
            return "'//' or trailing slash on root"
    if body == "":
        return None if out == "/" else "bad root"
    for c in body.split("/"):
        if c in ("", ".", ".."):
            return "unsafe component %r" % c
    return None


def mon_fs_component(s, out):
    want = bool(s) and "/" not in s and not s.startswith(".") and not s.endswith("~")
    return None if out == want else "is_safe_filesystem_path_component(%r)=%r" % (s, out)


def run(ctx):
    ctx.rule = ("strings: exhaustive over alphabet {a . / ~ \\ e-acute} up to length L plus random joins of hostile "
                "components; non-trivial = contains at least one of '/', '.', '~', '\\' ; distinct by string and function. "
                "trace: hostile request = one request with a hostile string in one channel, distinct by (method, channel, string)")
    ctx.assumptions += [
        "symlinks and case-insensitive file systems are outside the model (collision check of path_to_filesystem = identity on Linux)",
        "UTF-8 / code-point strings: Python str modelled as list of code points",
        "kernel path resolution of a lexically confined path without symlinks stays inside the folder",
    ]
    ok = ctx.prove()
    sites_check(ctx)
    from radicale import pathutils
    import posixpath

    # ------------------------------------------------------------ 2. correspondence on string functions
    L = ctx.n(5, 6)
    strings = list(small_strings(L))
    rnd = [random_path(ctx.rng) for _ in range(ctx.n(1500, 20000))]
    allstr = strings + rnd + [s_ for s_ in UNICODE_FIXED] + [s_.strip("/") for s_ in UNICODE_FIXED]
    root = tempfile.mkdtemp(prefix="rv-c06root-")
    # reserved names that already EXIST below the root (cache folders, editor backups, hidden files)
    for d in (".Radicale.cache", "a/.Radicale.cache/item", "a/b.ics~dir", ".hidden", "a/.Radicale.tmp-x"):
        os.makedirs(os.path.join(root, d), exist_ok=True)
    for f in ("a/x~", "a/.Radicale.props", "a/.Radicale.cache/item/e1.ics", "x~", ".Radicale.lock"):
        open(os.path.join(root, f), "w").close()
    tok = load_check_token_name()
    hexs = "0123456789abcdef"
    toks = []
    for _ in range(ctx.n(200, 2000)):
        n = ctx.rng.choice([64, 64, 64, 63, 65, 0, 1])
        t = "".join(ctx.rng.choice(hexs) for _ in range(n))
        if t and ctx.rng.random() < 0.5:
            i = ctx.rng.randrange(len(t))
            t = t[:i] + ctx.rng.choice("gGA/.~é %") + t[i + 1:]
        toks.append(t)

    def ptf(s):
        sp = pathutils.strip_path(pathutils.sanitize_path(s))
        try:
            return sp, pathutils.path_to_filesystem(root, sp)[len(root):]
        except ValueError:
            return sp, None

    suites = []
    suites.append(("sanitize", "sanitize_path", [(s, pathutils.sanitize_path(s)) for s in allstr], enc_str, enc_str, "eqs"))
    suites.append(("safe", "is_safe_path_component", [(s, pathutils.is_safe_path_component(s)) for s in strings], enc_str, enc_bool, "Bool.eqb"))
    suites.append(("fssafe", "is_safe_filesystem_path_component",
                   [(s, pathutils.is_safe_filesystem_path_component(s)) for s in strings + HOSTILE_PARTS], enc_str, enc_bool, "Bool.eqb"))
    suites.append(("normpath", "normpath", [(s, posixpath.normpath(s)) for s in allstr], enc_str, enc_str, "eqs"))
    suites.append(("dirname", "posix_dirname", [(s, posixpath.dirname(s)) for s in strings], enc_str, enc_str, "eqs"))
    pj = [(a, b) for a in list(small_strings(2)) + ["/a", "a/", "/a/b"] for b in list(small_strings(2)) + ["/x", "x/"]]
    suites.append(("pjoin", "(fun ab => posix_join (fst ab) (snd ab))", [((a, b), posixpath.join(a, b)) for a, b in pj],
                   lambda ab: "(%s, %s)" % (enc_str(ab[0]), enc_str(ab[1])), enc_str, "eqs"))
    ptf_cases = []
    for s in rnd[:ctx.n(800, 8000)] + strings[:ctx.n(1500, 8000)]:
        sp, r = ptf(s)
        ptf_cases.append((sp, r))
    suites.append(("ptf", "(fun sp => match path_to_filesystem (str \"R\") sp with Some f => Some (skipn 1 f) | None => None end)",
                   ptf_cases, enc_str, lambda v: "(None : option pystr)" if v is None else "(Some %s)" % enc_str(v), "eq_os"))
    suites.append(("token", "check_token_name", [(t, bool(tok(t))) for t in toks], enc_str, enc_bool, "Bool.eqb"))
    # shlex.quote model vs CPython, and the sh lexer model vs the real /bin/sh on quoted strings
    import shlex
    import subprocess
    shell_alpha = ["a", "'", '"', " ", "$", "`", "\\", ";", "|", "&", "(", "*", "~", "-", "=", "\n", "é", "%", "!", "#", "{", "<"]
    qs = ["".join(t) for n in range(0, 3) for t in itertools.product(shell_alpha, repeat=n)]
    qs += ["".join(ctx.rng.choice(shell_alpha + ["x", "y", "/", "."]) for _ in range(ctx.rng.randrange(3, 12))) for _ in range(ctx.n(400, 5000))]
    suites.append(("shquote", "shlex_quote", [(q, shlex.quote(q)) for q in qs], enc_str, enc_str, "eqs"))
    sample = [q for q in qs if "\x00" not in q][:ctx.n(300, 3000)]
    script = "".join("printf '%%s\\0' %s %s\n" % (shlex.quote(a), shlex.quote(b)) for a, b in zip(sample, reversed(sample)))
    out = subprocess.run(["sh"], input=script.encode("utf-8", "surrogateescape"), stdout=subprocess.PIPE).stdout.split(b"\0")[:-1]
    want = [x.encode("utf-8", "surrogateescape") for pair in zip(sample, reversed(sample)) for x in pair]
    ctx.count("cases:sh-real", len(sample))
    if out != want:
        k = next((i for i, (a, b) in enumerate(zip(out, want)) if a != b), min(len(out), len(want)))
        ctx.violation("the shell does not read shlex.quote(s) back as s", dict(function="shlex.quote via /bin/sh", input=repr(want[k] if k < len(want) else None),
                                                                              got=repr(out[k] if k < len(out) else None)))
    strip_cases = [pathutils.sanitize_path(s) for s in allstr[:3000]]
    suites.append(("strip", "strip_path", [(s, pathutils.strip_path(s)) for s in strip_cases], enc_str, enc_str, "eqs"))

    for tag, fn, cases, ie, oe, eqb in suites:
        for i, o in cases:
            key = i if isinstance(i, str) else "|".join(i)
            ctx.case((tag, key), nontrivial=any(c in key for c in "/.~\\"))
        ctx.count("cases:" + tag, len(cases))
        bad = ctx.diff_cases("c06_" + tag, HEADER, fn, cases, ie, oe, eqb)
        ok_s = bad is not None and not bad
        if bad is not None:
            ctx.obligation("correspondence:%s" % tag, ok_s,
                           "" if ok_s else "model differs from implementation on %d cases, first: %r" % (len(bad), cases[bad[0]]))
        if bad:
            ctx.extra.setdefault("disagreements", {})[tag] = [repr(cases[b]) for b in bad[:5]]
    ctx.samples += [dict(function="sanitize_path", input=s, output=pathutils.sanitize_path(s)) for s in rnd[:3]]
    shutil.rmtree(root, ignore_errors=True)

    # ------------------------------------------------------------ 3. monitors (failing-input search, run eagerly)
    for s in allstr:
        err = mon_sanitize(s, pathutils.sanitize_path(s))
        if err:
            ctx.violation("sanitize_path(%r) -> %r: %s" % (s, pathutils.sanitize_path(s), err),
                          dict(function="sanitize_path", input=s), signature=None)
            break
        # idempotence
        p = pathutils.sanitize_path(s)
        if pathutils.sanitize_path(p) != p:
            ctx.violation("sanitize_path not idempotent on %r" % s, dict(function="sanitize_path", input=s))
            break
    for s in strings + HOSTILE_PARTS:
        err = mon_fs_component(s, pathutils.is_safe_filesystem_path_component(s))
        if err:
            ctx.violation(err, dict(function="is_safe_filesystem_path_component", input=s))
            break
    for sp, r in ptf_cases:
        if r is not None:
            comps = [c for c in r.split("/") if c]
            if r != "".join("/" + c for c in comps) or any(c.startswith(".") or c.endswith("~") or c in (".", "..") for c in comps):
                ctx.violation("path_to_filesystem(%r) -> %r leaves the folder or names a reserved file" % (sp, r),
                              dict(function="path_to_filesystem", input=sp))
                break
    for t in toks:
        if tok(t) and not re.fullmatch(r"[0-9a-f]{64}", t):
            ctx.violation("check_token_name accepts %r" % t, dict(function="check_token_name", input=t))
            break

    # ------------------------------------------------------------ 4. trace level
    trace_check(ctx)


# ---------------------------------------------------------------------------------- handler-level site table
def _has_unknown(t):
    if t[0] in ("unk", "bot"):
        return t[1] if len(t) > 1 else "no value"
    for x in t[1:]:
        if isinstance(x, tuple) and x and isinstance(x[0], str):
            w = _has_unknown(x)
            if w:
                return w
    return None


def sites_check(ctx):
    """Tie T for the storage's path sites: the table the Coq obligation Gen_c06_sites_ok is about, re-read here to give a
    readable account of what is unconfined, then the storage-level probe as failing-input search."""
    from translate import t_c06sites
    ctx.assumptions += [
        "site table (translate/t_c06sites.py): syntactic provenance; attributes and internal functions are identified by NAME "
        "(no aliasing through getattr / rebinding), _atomic_write/_makedirs_synced/_sync_directory are pinned by body hash, "
        "os.scandir/os.listdir never return '', '.', '..' or a name with '/', tempfile appends no separator",
    ]
    bad, err = [], None
    try:
        calls, sites = t_c06sites.table(core.REPO)
    except Exception as e:
        calls, sites, err = [], [], "%s: %s" % (type(e).__name__, e)
    for f, fn, sink, line, t in sites:
        ctx.count("sites:%s" % sink.split(".")[-1])
        ctx.case(("site", f, fn, sink, line), nontrivial=t[0] not in ("root",), sample=None)
        w = _has_unknown(t)
        if w:
            bad.append("%s:%d %s %s(): %s" % (f, line, fn, sink, w))
    for f, x, t in calls:
        w = _has_unknown(t)
        if w:
            bad.append("argument %s of a call of %s: %s" % (x, f, w))
    ctx.extra["c06_sites"] = dict(sites=len(sites), call_entries=len(calls), unconfined=bad[:20], error=err,
                                  reviewed=sum(1 for s_ in sites if "reviewed" in repr(s_[4])))
    ctx.obligation("sites:every-path-site-of-the-storage-has-a-confined-provenance", not bad and not err,
                   err or "\n".join(bad[:20]))
    # the application side: which string reaches which storage entry point (readable account of Gen_c06_app_sites_ok)
    abad, aerr = [], None
    try:
        acalls, asites = t_c06sites.app_table(core.REPO)
    except Exception as e:
        acalls, asites, aerr = [], [], "%s: %s" % (type(e).__name__, e)
    for f, fn, sink, line, t in asites:
        ctx.count("appsites:%s" % sink)
        ctx.case(("appsite", f, fn, sink, line), nontrivial=True)
        w = _has_unknown(t)
        if w and not sink.endswith(":token"):
            abad.append("app/%s:%d %s %s: %s" % (f, line, fn, sink, w))
    for f, x, t in acalls:
        w = _has_unknown(t)
        if w:
            abad.append("app: argument %s of a call of %s: %s" % (x, f, w))
    ctx.extra["c06_app_sites"] = dict(sites=len(asites), call_entries=len(acalls), unrouted=abad[:20], error=aerr)
    ctx.obligation("sites:every-string-handed-to-a-storage-entry-point-is-routed-through-sanitize_path", not abad and not aerr,
                   aerr or "\n".join(abad[:20]))
    # the static web pages: httputils.serve_resource / _serve_traversable and radicale/web (account of Gen_c06_web_sites_ok)
    wbad, werr = [], None
    try:
        wcalls, wsites = t_c06sites.web_table(core.REPO)
    except Exception as e:
        wcalls, wsites, werr = [], [], "%s: %s" % (type(e).__name__, e)
    for f, fn, sink, line, t in wsites:
        ctx.count("websites:%s" % sink)
        ctx.case(("website", f, fn, sink, line), nontrivial=True)
        w = _has_unknown(t)
        if w:
            wbad.append("%s:%d %s %s(): %s" % (f, line, fn, sink, w))
    for f, x, t in wcalls:
        w = _has_unknown(t)
        if w:
            wbad.append("web: argument %s of a call of %s: %s" % (x, f, w))
    ctx.extra["c06_web_sites"] = dict(sites=len(wsites), call_entries=len(wcalls), unconfined=wbad[:20], error=werr)
    ctx.obligation("sites:every-component-joined-onto-the-web-folder-is-literal-or-checked-unchanged", not wbad and not werr,
                   werr or "\n".join(wbad[:20]))
    web_probe(ctx)
    # failing-input search at the storage API (public methods called directly with hostile strings)
    base = tempfile.mkdtemp(prefix="rv-c06p-")
    try:
        spec, outp = os.path.join(base, "spec.json"), os.path.join(base, "out.json")
        os.makedirs(os.path.join(base, "b"))
        seed, n = ctx.rng.randrange(1 << 30), ctx.n(60, 600)
        json.dump(dict(base=os.path.join(base, "b"), seed=seed, n=n), open(spec, "w"))
        env = dict(os.environ, VERIF_REPO=core.REPO, PYTHONPATH=core.VERIF, PYTHONHASHSEED="0")
        import subprocess
        pr = subprocess.run([core.PY, os.path.join(core.VERIF, "vlib/drivers/c06_storage_probe.py"), spec, outp],
                            stdout=subprocess.PIPE, stderr=subprocess.STDOUT, env=env, timeout=600)
        if pr.returncode != 0 or not os.path.exists(outp):
            ctx.obligation("sites:storage-probe-ran", False, pr.stdout.decode("utf-8", "replace")[-1500:])
            return
        res = json.load(open(outp))
        ctx.count("probe:calls", res["calls"])
        ctx.count("probe:refused", res["refused"])
        ctx.extra["c06_probe"] = dict(calls=res["calls"], hostile=res["hostile"], refused=res["refused"], events=len(res["events"]))
        for ev in res["events"][:1]:
            if ev["kind"] == "outside":
                what = "C06 storage probe: %s hands %r (outside the storage folder) to %s" % (ev["during"], ev["path"], ev["call"])
            else:
                what = "C06 storage probe: %s on a reserved / unsafe name: %s" % (ev["during"], ev["detail"])
            ctx.violation(what, dict(function="storage-probe", seed=seed, n=n, event=ev,
                                     note="replay: VERIF_REPO=<tree> PYTHONPATH=/verif python vlib/drivers/c06_storage_probe.py spec.json out.json "
                                          "with spec {base: <empty dir>, seed, n}"))
    finally:
        shutil.rmtree(base, ignore_errors=True)


def web_probe(ctx):
    """GET/HEAD below /.web with encoded, doubly encoded and mixed segments against the real Application under an audit hook."""
    import subprocess
    base = tempfile.mkdtemp(prefix="rv-c06w-")
    try:
        spec, outp = os.path.join(base, "spec.json"), os.path.join(base, "out.json")
        os.makedirs(os.path.join(base, "b"))
        seed, n = ctx.rng.randrange(1 << 30), ctx.n(400, 4000)
        json.dump(dict(base=os.path.join(base, "b"), seed=seed, n=n), open(spec, "w"))
        env = dict(os.environ, VERIF_REPO=core.REPO, PYTHONPATH=core.VERIF, PYTHONHASHSEED="0")
        pr = subprocess.run([core.PY, os.path.join(core.VERIF, "vlib/drivers/c06_web_probe.py"), spec, outp],
                            stdout=subprocess.PIPE, stderr=subprocess.STDOUT, env=env, timeout=900)
        if pr.returncode != 0 or not os.path.exists(outp):
            ctx.obligation("sites:web-probe-ran", False, pr.stdout.decode("utf-8", "replace")[-1500:])
            return
        res = json.load(open(outp))
        ctx.count("webprobe:requests", res["requests"])
        for k, v in res["statuses"].items():
            ctx.count("webprobe:status:%s" % k, v)
        ctx.extra["c06_web_probe"] = dict(requests=res["requests"], statuses=res["statuses"], events=len(res["events"]))
        for ev in res["events"][:1]:
            ctx.violation("C06 web probe: %s %s (PATH_INFO as handed over by the WSGI server) answered %s: %s, outside the packaged web folder"
                          % (ev["method"], ev["path"], ev["status"], ev["what"]),
                          dict(function="web-probe", seed=seed, n=n, request=dict(method=ev["method"], path=ev["path"]), event=ev,
                               note="replay: VERIF_REPO=<tree> PYTHONPATH=/verif python vlib/drivers/c06_web_probe.py spec.json out.json "
                                    "with spec {base: <empty dir>, seed, n}; or send the request to the Application with web type internal"))
    finally:
        shutil.rmtree(base, ignore_errors=True)


# ---------------------------------------------------------------------------------- trace-level check
EVENT = ("BEGIN:VCALENDAR\r\nPRODID:-//v//EN\r\nVERSION:2.0\r\nBEGIN:VEVENT\r\nUID:%s\r\nSUMMARY:s\r\n"
         "DTSTART:20130901T180000Z\r\nDTEND:20130901T190000Z\r\nEND:VEVENT\r\nEND:VCALENDAR\r\n")
METHODS = ["GET", "HEAD", "PUT", "DELETE", "MKCOL", "MKCALENDAR", "MOVE", "PROPFIND", "PROPPATCH", "REPORT", "OPTIONS", "POST"]
PROPFIND_BODY = '<?xml version="1.0"?><D:propfind xmlns:D="DAV:"><D:prop><D:getetag/><D:resourcetype/></D:prop></D:propfind>'
PROPPATCH_BODY = ('<?xml version="1.0"?><D:propertyupdate xmlns:D="DAV:"><D:set><D:prop><D:displayname>x</D:displayname>'
                  '</D:prop></D:set></D:propertyupdate>')


def multiget(hrefs):
    return ('<?xml version="1.0"?><C:calendar-multiget xmlns:D="DAV:" xmlns:C="urn:ietf:params:xml:ns:caldav"><D:prop>'
            '<D:getetag/><C:calendar-data/></D:prop>%s</C:calendar-multiget>' % "".join(
                "<D:href>%s</D:href>" % h.replace("&", "&amp;").replace("<", "&lt;") for h in hrefs))


def sync_body(token):
    return ('<?xml version="1.0"?><D:sync-collection xmlns:D="DAV:"><D:sync-token>%s</D:sync-token><D:sync-level>1</D:sync-level>'
            '<D:prop><D:getetag/></D:prop></D:sync-collection>' % token.replace("&", "&amp;").replace("<", "&lt;"))


def body_for(method, uid="u1"):
    return {"PUT": EVENT % uid, "PROPFIND": PROPFIND_BODY, "PROPPATCH": PROPPATCH_BODY,
            "REPORT": multiget(["/user/cal/e1.ics"])}.get(method)


def hostile_strings(rng, base, n):
    decoy = base + "/decoy.txt"
    fixed = ["/../decoy.txt", "/user/../../decoy.txt", "/user/cal/../../../decoy.txt", "/..", "/user/cal/..",
             decoy, "/" + decoy, "//" + decoy, "/user/cal/" + decoy, "/etc/passwd", "/user/cal/../../../../../../etc/passwd",
             "/.Radicale.lock", "/user/.Radicale.props", "/user/cal/.Radicale.props", "/user/cal/.Radicale.cache",
             "/user/cal/.Radicale.cache/item/e1.ics", "/user/cal/.Radicale.cache/", "/user/cal/.Radicale.cache/sync-token/x",
             "/user/cal/e1.ics~", "/user/cal/.hidden.ics", "/user/cal/.", "/user/cal/e1.ics/..", "/user/cal/e1.ics/.Radicale.props",
             "/user/cal\\..\\..\\decoy.txt", "/user/cal/..\\..\\decoy.txt", "/user/cal/éè.ics", "/user/cal/" + "x" * 300,
             "/.web/../../decoy.txt", "/.web/..", "/.web/../../../../../../etc/passwd", "/.web/.hidden", "/.web/%2e%2e/decoy.txt",
             "/.well-known/../decoy.txt", "/user/cal/%2e%2e/%2e%2e/decoy.txt", "/user/.Radicale.tmp-abc/collection",
             "/user//cal//e1.ics", "/user/./cal/./e1.ics", "", "user/cal", "/user/cal/\n.ics", "/user/cal/a\tb.ics",
             "/user/cal/x;touch %s;.ics" % (base + "/pwned"), "/user/cal/$(touch %s).ics" % (base + "/pwned"),
             "/user/cal/`touch %s`.ics" % (base + "/pwned"), "/user/cal/a b.ics", "/user/cal/x'y.ics", '/user/cal/x"y.ics',
             "/user/cal/x|y&z.ics", "/user/cal/e1.ics~", "/user/cal/.secret.ics", "/user/cal/.Radicale.props",
             "/user/cal/.Radicale.cache/item/e1.ics", "/user/cal/.Radicale.cache/history/e1.ics"]
    out = list(fixed) + list(UNICODE_FIXED)          # the fixed strings are always all there
    while len(out) < n:
        out.append(random_path(rng))
    rng.shuffle(out)
    return out


def trace_check(ctx):
    base = tempfile.mkdtemp(prefix="rv-c06-")
    try:
        _trace_check(ctx, base)
    finally:
        shutil.rmtree(base, ignore_errors=True)
    for inject in ("renameat2:error=EINVAL", "renameat2:error=ENOSYS"):
        base = tempfile.mkdtemp(prefix="rv-c06f-")
        try:
            _fallback_trace(ctx, base, inject)
        finally:
            shutil.rmtree(base, ignore_errors=True)


def _fallback_trace(ctx, base, inject):
    """The code paths taken when renameat2(RENAME_EXCHANGE) is not available (other kernels / file systems): a collection is
    replaced twice; every file-system modification must stay inside the storage folder."""
    folder = os.path.join(base, "storage")
    os.makedirs(folder)
    conf = {"auth": {"type": "none"}, "rights": {"type": "vlib.x_rights_all"}, "web": {"type": "none"}}
    whole = "BEGIN:VCALENDAR\r\nPRODID:-//v//EN\r\nVERSION:2.0\r\n%sEND:VCALENDAR\r\n"
    ev = ("BEGIN:VEVENT\r\nUID:%s\r\nDTSTAMP:20130101T000000Z\r\nDTSTART:20130901T180000Z\r\nDTEND:20130901T190000Z\r\n"
          "SUMMARY:s\r\nEND:VEVENT\r\n")
    reqs = [dict(method="MKCOL", path="/user/", login="user:", mark="f0"),
            dict(method="PUT", path="/user/cal/", data=whole % (ev % "a" + ev % "b"), login="user:", mark="f1"),
            dict(method="PUT", path="/user/cal/", data=whole % (ev % "c"), login="user:", mark="f2"),
            dict(method="MKCALENDAR", path="/user/cal2/", login="user:", mark="f3"),
            dict(method="PUT", path="/user/cal2/", data=whole % (ev % "d"), login="user:", mark="f4"),
            dict(method="DELETE", path="/user/cal/", login="user:", mark="f5")]
    spec, outp, tr = os.path.join(base, "spec.json"), os.path.join(base, "out.json"), os.path.join(base, "trace.txt")
    json.dump(dict(folder=folder, conf=conf, requests=reqs), open(spec, "w"))
    rc, out = trace.run_traced([core.PY, os.path.join(core.VERIF, "vlib/drivers/req_driver.py"), spec, outp], tr, timeout=300,
                               inject=inject)
    if rc != 0 or not os.path.exists(outp):
        ctx.obligation("trace:fallback-driver-ran(%s)" % inject, False, out[-1500:])
        return
    real_folder = os.path.realpath(folder)
    started = False
    for e in trace.parse(tr):
        if e.call in ("stat", "newfstatat", "statx", "lstat") and e.paths and e.paths[0].startswith(trace.MARK_PREFIX):
            started = True
            continue
        if not started:
            continue
        is_mut = e.call in trace.MUTATING or (e.call in ("open", "openat", "creat") and re.search(r"O_WRONLY|O_RDWR|O_CREAT|O_TRUNC", e.args))
        if not is_mut or e.ret is None or e.ret < 0:
            continue
        at_call = e.call.endswith("at") or e.call.endswith("at2")
        for p_ in (e.resolved if (at_call and e.resolved) else e.paths):
            if not p_ or not p_.startswith("/") or p_.startswith(("/dev/", "/proc/", "/rv-mark/")):
                continue
            ap = os.path.normpath(p_)
            if ap == os.path.normpath(outp):
                continue                              # the driver's own result file
            ctx.count("fallback-mutations")
            if not (ap == real_folder or ap.startswith(real_folder + "/")):
                ctx.case(("fallback", inject, e.call), nontrivial=True)
                ctx.violation("C06 trace (%s): %s on %r, outside the storage folder, while a collection is replaced" % (inject, e.call, ap),
                              dict(inject=inject, requests=[dict(method=r["method"], path=r["path"]) for r in reqs], event=repr(e)))
                return
    ctx.case(("fallback", inject), nontrivial=True)


def _trace_check(ctx, base):
    folder = os.path.join(base, "storage")
    os.makedirs(folder)
    for d in (base, folder, os.path.join(base, "storage", "collection-root") if False else base):
        with open(os.path.join(d, "decoy.txt"), "w") as f:
            f.write("DECOY-SECRET-7f3a")
    with open(os.path.join(folder, "decoy.txt"), "w") as f:
        f.write("DECOY-SECRET-7f3a")
    hooklog = os.path.join(base, "hooklog")
    hook = os.path.join(core.VERIF, "vlib", "drivers", "hookdump") + " %(user)s %(path)s"
    conf = {"auth": {"type": "none"}, "rights": {"type": "vlib.x_rights_all"},
            "storage": {"hook": hook}, "web": {"type": "internal"}}
    rng = ctx.rng
    reqs = []
    # benign baseline (also provides the store the hostile requests aim at)
    base_reqs = [
        dict(method="MKCOL", path="/user/", login="user:"),
        dict(method="MKCALENDAR", path="/user/cal/", login="user:"),
        dict(method="PUT", path="/user/cal/e1.ics", data=EVENT % "e1", login="user:"),
        dict(method="PUT", path="/user/cal/e2.ics", data=EVENT % "e2", login="user:"),
        dict(method="PROPFIND", path="/user/cal/", data=PROPFIND_BODY, login="user:", headers={"HTTP_DEPTH": "1"}),
        dict(method="REPORT", path="/user/cal/", data=sync_body(""), login="user:"),
        dict(method="REPORT", path="/user/cal/", data=multiget(["/user/cal/e1.ics"]), login="user:"),
        dict(method="GET", path="/user/cal/e1.ics", login="user:"),
        dict(method="GET", path="/.web/", login="user:"),
        dict(method="GET", path="/.web/index.html", login="user:"),
        dict(method="MOVE", path="/user/cal/e2.ics", login="user:", headers={"HTTP_DESTINATION": "http://127.0.0.1/user/cal/e3.ics", "HTTP_HOST": "127.0.0.1"}),
        dict(method="DELETE", path="/user/cal/e3.ics", login="user:"),
        dict(method="PROPPATCH", path="/user/cal/", data=PROPPATCH_BODY, login="user:"),
        dict(method="OPTIONS", path="/user/", login="user:"),
    ]
    secret = EVENT % "RESERVED-SECRET-9c1"
    base_reqs += [
        dict(method="__WRITE__", path="collection-root/user/cal/e1.ics~", data=secret),
        dict(method="__WRITE__", path="collection-root/user/cal/.secret.ics", data=secret),
        dict(method="__WRITE__", path="collection-root/user/.hiddencol/.Radicale.props", data='{"tag": "VCALENDAR"}'),
        dict(method="__WRITE__", path="collection-root/user/.hiddencol/s.ics", data=secret),
        # residue of interrupted atomic writes inside the internal cache folders
        dict(method="__WRITE__", path="collection-root/user/cal/.Radicale.cache/history/.Radicale.tmp-resid1/e9.ics", data="x"),
        dict(method="__WRITE__", path="collection-root/user/cal/.Radicale.cache/item/.Radicale.tmp-resid2/e9.ics", data="x"),
        dict(method="__WRITE__", path="collection-root/user/cal/.Radicale.cache/sync-token/.Radicale.tmp-resid3/tok", data="x"),
    ]
    for i, r in enumerate(base_reqs):
        r["mark"] = "base%d" % i
    reqs += base_reqs
    n = ctx.n(260, 6000)
    hs = hostile_strings(rng, base, max(60, n // 4))
    hostile = []
    for i in range(n):
        s = hs[i % len(hs)] if i < len(hs) else rng.choice(hs)
        ch = rng.choice(["path", "path", "path", "dest", "href", "token", "script", "login"])
        if ch == "path":
            m = METHODS[i % len(METHODS)]
            r = dict(method=m, path=s, data=body_for(m, "h%d" % i), login="user:")
            if m == "MOVE":
                r["headers"] = {"HTTP_DESTINATION": "http://127.0.0.1/user/cal/moved%d.ics" % i, "HTTP_HOST": "127.0.0.1"}
            if m == "PROPFIND":
                r.setdefault("headers", {})["HTTP_DEPTH"] = rng.choice(["0", "1"])
        elif ch == "dest":
            pre = rng.choice(["http://127.0.0.1", "http://127.0.0.1", "", "http://127.0.0.1:80", "//127.0.0.1"])
            reqs_put = dict(method="PUT", path="/user/cal/mv%d.ics" % i, data=EVENT % ("mv%d" % i), login="user:", mark="pre%d" % i)
            hostile.append(reqs_put)
            r = dict(method="MOVE", path="/user/cal/mv%d.ics" % i, login="user:",
                     headers={"HTTP_DESTINATION": pre + s, "HTTP_HOST": "127.0.0.1", "HTTP_OVERWRITE": rng.choice(["T", "F"])})
        elif ch == "href":
            r = dict(method="REPORT", path="/user/cal/", data=multiget([s, "/user/cal/e1.ics"]), login="user:")
        elif ch == "token":
            ups = rng.randrange(3, 9)
            pad = "../" * ups + "decoy.txt"
            pad64 = pad[:3] + "/" * (64 - len(pad)) + pad[3:] if len(pad) <= 64 else pad[:64]
            t = rng.choice([s, "http://radicale.org/ns/sync/" + s, "http://radicale.org/ns/sync/../../../decoy.txt",
                            "http://radicale.org/ns/sync/" + pad64, "http://radicale.org/ns/sync/" + ("a" + "/" * 62 + "b"),
                            "http://radicale.org/ns/sync/" + ("../" * 21 + "a"),
                            "http://radicale.org/ns/sync/" + "a" * 63 + "/", "http://radicale.org/ns/sync/" + "." * 64,
                            "http://radicale.org/ns/sync/" + "A" * 64])
            r = dict(method="REPORT", path="/user/cal/", data=sync_body(t), login="user:")
        elif ch == "script":
            r = dict(method=rng.choice(["GET", "PROPFIND"]), path=rng.choice(["/", "/user/cal/", "/.web/"]),
                     data=None, login="user:", headers={"HTTP_X_SCRIPT_NAME": s})
            if r["method"] == "PROPFIND":
                r["data"] = PROPFIND_BODY
        else:
            name = rng.choice([s, "../decoy.txt", "..", ".", "a/b", ".Radicale.cache", "$(touch %s/pwned)" % base, "`touch %s/pwned`" % base,
                               "a;touch %s/pwned" % base, "a'b", 'a"b', "a b", "a\nb", "-n", "a|b", "a&b", "$HOME", "x~", ".x",
                               # text that means something to the hook's template expansion: a value substituted for one
                               # placeholder must never be scanned again for another (two channels cooperating: the login
                               # names a placeholder, the path of the same request carries the shell syntax)
                               "%(path)s", "x%(path)sy", "%(cwd)s", "%(user)s", "%s", "%%(path)s", "%(nope)s", "%", "{path}", "${path}"])
            if ":" in name:
                name = name.replace(":", "_")
            r = dict(method=rng.choice(["PROPFIND", "MKCALENDAR", "PUT"]), path="/%s/calx/" % name.strip("/"), login=name + ":",
                     data=None)
            if r["method"] == "PROPFIND":
                r["data"] = PROPFIND_BODY
                r["path"] = "/"
            if r["method"] == "PUT":
                r["path"] = "/%s/calx/z.ics" % name.strip("/")
                if "%" in name or "{" in name:
                    r["path"] = "/%s/calx/z;touch %s;.ics" % (name.strip("/"), os.path.join(base, "pwned"))
                r["data"] = EVENT % "z"
        r["mark"] = "h%d-%s" % (i, ch)
        r["channel"] = ch
        r["hostile"] = s
        hostile.append(r)
    # every reserved name that exists in the store, through every channel that can name an item
    # (sent first, while the baseline store is still intact)
    random_hostile, hostile = hostile, []
    k = 0
    for rn in ("/user/cal/e1.ics~", "/user/cal/.secret.ics", "/user/cal/.Radicale.props", "/user/.hiddencol/s.ics", "/user/.hiddencol/",
               "/user/cal/.Radicale.cache/item/e1.ics"):
        for m in ("GET", "DELETE", "PROPFIND", "PROPPATCH", "PUT"):
            hostile.append(dict(method=m, path=rn, data=body_for(m, "rn%d" % k), login="user:", mark="hr%d-path" % k, channel="path", hostile=rn))
            k += 1
        hostile.append(dict(method="REPORT", path="/user/cal/", data=multiget([rn]), login="user:", mark="hr%d-href" % k, channel="href", hostile=rn))
        k += 1
        hostile.append(dict(method="MOVE", path=rn, login="user:", mark="hr%d-path" % k, channel="path", hostile=rn,
                            headers={"HTTP_DESTINATION": "http://127.0.0.1/user/cal/out%d.ics" % k, "HTTP_HOST": "127.0.0.1"}))
        k += 1
        hostile.append(dict(method="PUT", path="/user/cal/mvr%d.ics" % k, data=EVENT % ("mvr%d" % k), login="user:", mark="hr%d-pre" % k))
        hostile.append(dict(method="MOVE", path="/user/cal/mvr%d.ics" % k, login="user:", mark="hr%d-dest" % k, channel="dest", hostile=rn,
                            headers={"HTTP_DESTINATION": "http://127.0.0.1" + rn, "HTTP_HOST": "127.0.0.1", "HTTP_OVERWRITE": "T"}))
        k += 1
    # every way of LISTING the collections that hold planted reserved entries (files and folders put there by an editor,
    # a restore or a snapshot tool): none of their names or contents may show up
    cq = ('<?xml version="1.0"?><C:calendar-query xmlns:D="DAV:" xmlns:C="urn:ietf:params:xml:ns:caldav"><D:prop><D:getetag/>'
          '<C:calendar-data/></D:prop><C:filter><C:comp-filter name="VCALENDAR"/></C:filter></C:calendar-query>')
    for li, (m, pth, dat, hd) in enumerate([
            ("PROPFIND", "/user/", PROPFIND_BODY, {"HTTP_DEPTH": "1"}), ("PROPFIND", "/user/cal/", PROPFIND_BODY, {"HTTP_DEPTH": "1"}),
            ("PROPFIND", "/", PROPFIND_BODY, {"HTTP_DEPTH": "1"}), ("REPORT", "/user/cal/", cq, {}), ("REPORT", "/user/cal/", sync_body(""), {}),
            ("GET", "/user/cal/", None, {}), ("GET", "/user/", None, {})]):
        hostile.append(dict(method=m, path=pth, data=dat, login="user:", headers=hd, mark="hl%d-listing" % li, channel="listing", hostile=""))
    # every template placeholder as a login, together with shell syntax in the path of the same request (two
    # channels that are harmless alone)
    for ph in ("%(path)s", "x%(path)sy", "%(cwd)s", "%(user)s", "%s", "%(nope)s"):
        for m in ("MKCALENDAR", "PUT"):
            pth = "/%s/c;touch %s;/" % (ph, os.path.join(base, "pwned")) if m == "MKCALENDAR" else \
                "/%s/calx/z;touch %s;.ics" % (ph, os.path.join(base, "pwned"))
            hostile.append(dict(method=m, path=pth, data=EVENT % "ph" if m == "PUT" else None, login=ph + ":", mark="hr%d-login" % k,
                                channel="login", hostile=ph))
            k += 1
    hostile += random_hostile
    reqs += hostile
    spec = os.path.join(base, "spec.json")
    outp = os.path.join(base, "out.json")
    tr = os.path.join(base, "trace.txt")
    json.dump(dict(folder=folder, conf=conf, requests=reqs), open(spec, "w"))
    rc, out = trace.run_traced([core.PY, os.path.join(core.VERIF, "vlib/drivers/req_driver.py"), spec, outp], tr,
                               env={"RV_HOOKLOG": hooklog}, timeout=ctx.n(600, 3000))
    if rc != 0 or not os.path.exists(outp):
        ctx.obligation("trace:driver-ran", False, out[-1500:])
        return
    results = json.load(open(outp))
    events = trace.parse(tr)
    phases = trace.split_by_marks(events)
    ctx.traces_validated = len(phases)
    real_folder = os.path.realpath(folder)
    import radicale
    web_dir = os.path.join(os.path.dirname(os.path.abspath(radicale.__file__)), "web", "internal_data")
    read_prefixes = [real_folder, sys.prefix, sys.base_prefix, os.path.realpath(core.REPO), "/usr/lib", "/usr/local/lib", "/lib", "/etc/",
                     "/proc/", "/dev/", "/sys/", "/usr/share/zoneinfo", "/usr/share/locale", "/rv-mark/", "/bin", "/usr/bin",
                     os.path.join(core.VERIF, "vlib"), "/venv", "/opt/conda", "/root/.cache", "/tmp/rv-hook"]
    req_by_mark = {r["mark"]: r for r in reqs}
    hostile_phases = 0
    first_violation = None
    for label, evs in phases:
        if not (label.startswith("h") and label in req_by_mark):
            continue
        r = req_by_mark[label]
        if "channel" not in r:
            continue
        hostile_phases += 1
        ctx.case((r["method"], r.get("channel"), r.get("hostile")), nontrivial=True,
                 sample=dict(method=r["method"], channel=r.get("channel"), hostile=r.get("hostile")) if hostile_phases <= 3 else None)
        ctx.count("channel:" + r.get("channel", "?"))
        for e in evs:
            if e.call in ("close", "write", "pwrite64", "fsync", "fdatasync", "flock", "getdents64", "socket"):
                continue
            if e.call == "connect":
                if first_violation is None:
                    first_violation = ("connect() during request", r, e)
                continue
            if e.call == "execve":
                # only the hook (sh -c ...) and what it runs may be executed
                continue
            at_call = e.call.endswith("at") or e.call.endswith("at2")
            for p in (e.resolved if (at_call and e.resolved) else e.paths):
                if not p or p.startswith("/rv-mark/"):
                    continue
                ap = os.path.normpath(p if p.startswith("/") else os.path.join(folder, p))
                inside = ap == real_folder or ap.startswith(real_folder + "/")
                if inside and ap == os.path.join(real_folder, "decoy.txt"):
                    inside = False   # decoy directly in the storage folder, outside collection-root: never named
                is_mut = e.call in trace.MUTATING or (e.call in ("open", "openat", "creat") and re.search(r"O_WRONLY|O_RDWR|O_CREAT|O_TRUNC", e.args))
                if ap in (os.path.join(base, "decoy.txt"), os.path.join(real_folder, "decoy.txt"),
                          os.path.join(os.path.realpath(base), "decoy.txt"), os.path.join(base, "pwned"), "/etc/passwd"):
                    if first_violation is None:
                        first_violation = ("touches %s" % ap, r, e)
                    continue
                if is_mut and not inside and e.ret is not None and not ap.startswith("/dev/") and not ap.startswith("/tmp/rv-hook"):
                    # hook child writes its log: allowed file
                    if ap == os.path.normpath(os.environ.get("RV_HOOKLOG", hooklog)) or ap == hooklog:
                        continue
                    if first_violation is None:
                        first_violation = ("mutating call outside the storage folder: %s" % ap, r, e)
                if not is_mut and not inside and not any(ap.startswith(x) for x in read_prefixes) and ap != hooklog and ap != "/" and ap not in ("/tmp", base, "/usr", "/root"):
                    if e.ret is not None and e.ret >= 0 and e.call in ("open", "openat"):
                        if first_violation is None:
                            first_violation = ("opens %s outside storage folder and runtime prefixes" % ap, r, e)
                # reserved names are only ever used in the role the storage gives them
                if inside and e.ret is not None and e.ret >= 0 and is_mut:
                    rel = ap[len(real_folder):].strip("/").split("/")
                    for c in rel:
                        if c.startswith(".Radicale.tmp-"):
                            break          # below the storage's own temporary folders (old trees are removed there)
                        if (c.startswith(".") or c.endswith("~")) and not (
                                c in (".Radicale.cache", ".Radicale.props", ".Radicale.lock") or c.startswith(".Radicale.tmp-")
                                or c.startswith(".Radicale.lock")):
                            if first_violation is None:
                                first_violation = ("creates/changes reserved-looking name %r" % c, r, e)
    ctx.extra["hostile_requests_traced"] = hostile_phases
    # responses must never carry decoy or internal-file content
    from radicale import pathutils as _pu

    def reserved_target(pth):
        comps = [c for c in _pu.sanitize_path(pth).strip("/").split("/") if c]
        if comps and comps[0] in (".web", ".well-known"):
            return False
        return any(c.startswith(".") or c.endswith("~") for c in comps)
    for r, res in zip(reqs, results):
        body = res.get("body", "") or ""
        if "RESERVED-SECRET" in body:
            first_violation = first_violation or ("content of a reserved file (leading dot / trailing ~) served", r, None)
        if r.get("channel") == "path" and r["method"] not in ("OPTIONS",) and res.get("status") in (200, 201, 204, 207) \
                and reserved_target(r["path"]):
            first_violation = first_violation or ("request on a reserved name answered %s" % res.get("status"), r, None)
        if r.get("channel") == "dest" and res.get("status") in (201, 204):
            from urllib.parse import urlparse as _up
            if reserved_target(_up(r["headers"]["HTTP_DESTINATION"]).path):
                first_violation = first_violation or ("MOVE onto a reserved name answered %s" % res.get("status"), r, None)
        if r.get("channel") == "listing":
            for rname in ("e1.ics~", ".secret.ics", ".hiddencol", "e1.ics%7E", "%2Esecret", "%2Ehiddencol", ".Radicale.tmp", "%2ERadicale"):
                if rname in body:
                    first_violation = first_violation or ("a listing names the reserved entry %r" % rname, r, None)
            if (res.get("status") or 0) >= 500:
                first_violation = first_violation or ("a listing fails (%s) in the presence of reserved entries / write residue" % res.get("status"), r, None)
        if "DECOY-SECRET" in body:
            first_violation = first_violation or ("decoy content in response", r, None)
        if r.get("mark", "").startswith("h") and res.get("status") == 200 and r["method"] == "GET":
            tgt = r["path"].rstrip("/").split("/")[-1] if r["path"].strip("/") else ""
            if tgt.startswith(".Radicale") and body:
                first_violation = first_violation or ("internal file served: %r" % r["path"], r, None)
        ctx.count("status:%s" % res.get("status"))
    if os.path.exists(os.path.join(base, "pwned")):
        first_violation = first_violation or ("shell interpreted client text: %s/pwned exists" % base, None, None)
    # hook arguments are the literal strings
    if os.path.exists(hooklog):
        with open(hooklog, "rb") as f:
            lines = f.read().split(b"\nHOOK")
        ctx.extra["hook_calls"] = len(lines)
        croot = os.path.join(folder, "collection-root")
        allowed = set()
        for r in reqs:
            if r["method"].startswith("__"):
                continue
            u = (r.get("login") or ":").split(":")[0] or "Anonymous"
            allowed.add((u, croot))
            if r["method"] == "PUT":
                allowed.add((u, croot + _pu.sanitize_path(r["path"])))
                allowed.add(("Anonymous", croot + _pu.sanitize_path(r["path"])))
            allowed.add(("Anonymous", croot))
        for ln in lines:
            parts = ln.split(b"\0")[1:]
            if len(parts) != 2:
                first_violation = first_violation or ("hook received %d arguments instead of 2: %r" % (len(parts), parts[:4]), None, None)
                break
            got = (parts[0].decode("utf-8", "surrogateescape"), parts[1].decode("utf-8", "surrogateescape").rstrip("\n"))
            if got not in allowed:
                first_violation = first_violation or ("hook arguments %r are not the literal user / path of any request" % (got,), None, None)
                break
    if first_violation:
        what, r, e = first_violation
        ctx.violation("C06 trace: %s" % what, dict(request=r, event=repr(e) if e else None,
                                                     note="replay: ./check C06 --replay <this file> re-runs this single request under strace"))


def replay(ctx, path):
    data = json.load(open(path))
    print(json.dumps(data, indent=1)[:4000])
    return 0
