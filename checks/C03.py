"""C03 -- No request reads or changes anything the rights policy does not grant.

1. proof: Props/C03.v -- for an arbitrary policy: non-interference over whole histories (dark subtrees), write /
   read permission needed for every change / payload, denied => unchanged; Access.check tied by translation.
2. correspondence: real Application (rights plug-in = generated permission tables incl. random letter sets)
   vs Model/Handlers.v on seeded histories.
3. monitors on the implementation (independent of the model):
   a. two-store differential: two servers whose stores differ only inside subtrees that are dark for the user
      (different / missing collections, items, properties) get the same request history: every response must be
      identical and the non-dark part of the directory tree must evolve identically;
   b. payload: every collection / item that appears in a multistatus or is served needs the matching read
      permission in the user's table;
   c. writes: every difference between the directory dumps before and after a request needs the matching write
      permission (w / W, d/D, o/O as configured); an answer "forbidden" leaves the dump unchanged.
"""
from vlib import x_handlers as xh
from vlib import x_hcheck
from vlib import impl
import os  # noqa: E402

ALL = {(): "RWrw", (10,): "RWrw", (11,): "RWrw", (10, 20): "RWrw", (10, 21): "RWrw", (11, 20): "RWrw", (11, 22): "RWrw",
       (10, 22): "RWrw", (10, 20, 101): ""}
SETUP_POLS = [(None, dict(ALL)), (10, dict(ALL)), (11, dict(ALL))]


def perm(pols, ui, p):
    return pols[ui][1].get(tuple(p), "")


def payload_monitor(ctx, state, world, hist, outs, runner):
    cfg, pols = world
    for k, ((ui, r), o) in enumerate(zip(hist, outs)):
        err = None
        if o[1][0] == "CPListing":
            for e in o[1][1]:
                if e[0] == "CEColl":
                    pm = perm(pols, ui, e[1])
                    need = "rw" if e[2] != "TNone" else "RW"
                    if not set(pm) & set(need):
                        err = "collection %r listed although the policy grants none of %r (has %r)" % (e[1], need, pm)
                elif e[0] == "CEItem":
                    pm = perm(pols, ui, e[1][:-1])
                    need = "r" if r[0] in ("RMultiget", "RQuery") else "rw"
                    if not set(pm) & set(need):
                        err = "item %r reported although the policy grants none of %r on its collection (has %r)" % (e[1], need, pm)
        elif o[1][0] == "CPItem":
            if "r" not in perm(pols, ui, r[1][:-1]):
                err = "item content served without r on the collection"
        elif o[1][0] == "CPExport":
            if not set(perm(pols, ui, r[1])) & set("ri"):
                err = "collection content served without r or i"
        elif o[1][0] == "CPBusy":
            # a free-busy answer (even an empty one) tells about the events of the target's calendar
            tgt = tuple(r[1])
            if "r" not in perm(pols, ui, tgt) and not (len(tgt) == 3 and "r" in perm(pols, ui, tgt[:-1])):
                err = "free-busy information served without r on the calendar"
        if err and "v" not in state:
            state["v"] = True
            ctx.violation("request %d: %s" % (k, err), dict(world=x_hcheck.world_json(world), history=hist[:k + 1], response=repr(o)))


def write_monitor(ctx, state, world, hist, outs, runner):
    cfg, pols = world
    prev = {(): ("TNone", (), {})}
    for k, ((ui, r), o, dump) in enumerate(zip(hist, outs, runner.dumps)):
        cur = {p: (tag, tuple(props), dict(items)) for p, tag, props, items in dump}
        user = xh.USERS[ui]
        home = (xh.USER_NAME[user],) if user else None
        err = None
        for p in set(prev) | set(cur):
            a, b = prev.get(p), cur.get(p)
            if a == b:
                continue
            pm = perm(pols, ui, p)
            if a is None and p == home and b == ("TNone", (), {}):
                if "W" not in pm:
                    err = "home %r created without W" % (p,)
                continue
            if a is not None and b is not None and a[0] == b[0] and a[1] == b[1] and r[0] != "RPut" or \
                    (a is not None and b is not None and a[0] == b[0] and a[1] == b[1] and r[0] == "RPut" and o[1][0] == "CPEtagItem"):
                # only items changed: w on this collection
                if "w" not in pm:
                    err = "items of %r changed without w (has %r)" % (p, pm)
                continue
            # collection created / deleted / replaced / properties changed
            tags = {x[0] for x in (a, b) if x is not None}
            if r[0] == "RDelete" and b is None:
                tags = {a[0]}
                # descendants removed with an ancestor are covered by the permission on the request target
                tgt = tuple(r[1])
                if p != tgt and p[:len(tgt)] == tgt:
                    continue
                flag_ok = ("d" not in pm) if cfg[0] else ("D" in pm)
                if not flag_ok:
                    err = "collection %r deleted against the d/D flags (has %r, permit_delete=%s)" % (p, pm, cfg[0])
            if r[0] == "RPut":
                tgt = tuple(r[1])
                if p != tgt and p[:len(tgt)] == tgt:
                    continue
                tags = {b[0]} if b is not None else tags
                flag_ok = ("o" not in pm) if cfg[1] else ("O" in pm)
                if not flag_ok:
                    err = "collection %r overwritten against the o/O flags (has %r, permit_overwrite=%s)" % (p, pm, cfg[1])
            for t in tags:
                need = "w" if t != "TNone" else "W"
                if need not in pm:
                    err = "collection %r (%s) created/changed/deleted without %s (has %r)" % (p, t, need, pm)
        if o[0] == "S403NA":
            base = dict(prev)
            if home and home not in base and cur.get(home) == ("TNone", (), {}):
                base[home] = cur[home]
            if cur != base:
                err = "request answered 'forbidden' but the stored data changed"
        if err and "v" not in state:
            state["v"] = True
            ctx.violation("request %d (%s): %s" % (k, r[0], err),
                          dict(world=x_hcheck.world_json(world), history=hist[:k + 1], before=repr(sorted(prev.items())),
                               after=repr(sorted(cur.items()))))
        prev = cur


def dark_roots(table):
    """Roots d (among the universe's paths) with no permission at d and below, and no r/w on the parent."""
    roots = []
    for d in [(11,), (10, 21), (11, 20), (11, 22), (10, 22), (10,)]:
        below = [p for p in table if p[:len(d)] == d]
        if any(table.get(p, "") for p in below) or table.get(d, ""):
            continue
        if set(table.get(d[:-1], "")) & set("rw"):
            continue
        roots.append(d)
    # keep only top-most
    return [d for d in roots if not any(d != e and d[:len(e)] == e for e in roots)]


RAW_REPORTS = {
    "multiget": ('<?xml version="1.0"?><C:calendar-multiget xmlns:D="DAV:" xmlns:C="urn:ietf:params:xml:ns:caldav"><D:prop><D:getetag/>'
                 '<C:calendar-data/></D:prop>%s</C:calendar-multiget>'),
    "adr-multiget": ('<?xml version="1.0"?><CR:addressbook-multiget xmlns:D="DAV:" xmlns:CR="urn:ietf:params:xml:ns:carddav"><D:prop><D:getetag/>'
                     '<CR:address-data/></D:prop>%s</CR:addressbook-multiget>'),
    "calendar-query": ('<?xml version="1.0"?><C:calendar-query xmlns:D="DAV:" xmlns:C="urn:ietf:params:xml:ns:caldav"><D:prop><D:getetag/>'
                       '<C:calendar-data/></D:prop><C:filter><C:comp-filter name="VCALENDAR"/></C:filter></C:calendar-query>'),
    "addressbook-query": ('<?xml version="1.0"?><CR:addressbook-query xmlns:D="DAV:" xmlns:CR="urn:ietf:params:xml:ns:carddav"><D:prop><D:getetag/>'
                          '<CR:address-data/></D:prop></CR:addressbook-query>'),
    "sync-collection": ('<?xml version="1.0"?><D:sync-collection xmlns:D="DAV:"><D:sync-token/><D:sync-level>1</D:sync-level><D:prop>'
                        '<D:getetag/></D:prop></D:sync-collection>'),
    "free-busy": ('<?xml version="1.0"?><C:free-busy-query xmlns:C="urn:ietf:params:xml:ns:caldav"><C:time-range start="20000101T000000Z" '
                  'end="20400101T000000Z"/></C:free-busy-query>'),
    "expand-property": '<?xml version="1.0"?><D:expand-property xmlns:D="DAV:"><D:property name="current-user-principal"/></D:expand-property>',
}
RAW_PROPFINDS = {
    "allprop": '<?xml version="1.0"?><D:propfind xmlns:D="DAV:"><D:allprop/></D:propfind>',
    "propname": '<?xml version="1.0"?><D:propfind xmlns:D="DAV:"><D:propname/></D:propfind>',
    "many": ('<?xml version="1.0"?><D:propfind xmlns:D="DAV:" xmlns:C="urn:ietf:params:xml:ns:caldav" xmlns:CS="http://calendarserver.org/ns/" '
             'xmlns:CR="urn:ietf:params:xml:ns:carddav"><D:prop><CS:getctag/><D:sync-token/><D:getcontentlength/><D:getcontenttype/><D:owner/>'
             '<D:current-user-principal/><D:principal-URL/><D:supported-report-set/><C:supported-calendar-component-set/>'
             '<C:calendar-home-set/><CR:addressbook-home-set/><D:displayname/><D:getetag/><D:resourcetype/></D:prop></D:propfind>'),
}


def raw_observers(login):
    """Read-only requests of every kind the handler model does not cover, on every path of the universe: returns a function
    srv -> list of (label, status, normalised headers, normalised body)."""
    import re as _re

    def norm(b):
        t = b.decode("utf-8", "replace") if isinstance(b, bytes) else b
        t = _re.sub(r"<(\w+:)?getlastmodified>[^<]*</(\w+:)?getlastmodified>", "<getlastmodified/>", t)
        t = _re.sub(r"(?m)^DTSTAMP:.*$", "DTSTAMP:x", t)
        # a refused free-busy REPORT answers with str(<Element>) as body -- the repr of an object, memory address included
        # (observation recorded in DESIGN 10.2; not a C03 matter)
        t = _re.sub(r" at 0x[0-9a-f]+>", " at 0x>", t)
        # sync tokens hash per-change random history ETags (history.py: os.urandom): never equal across two servers
        t = _re.sub(r"http://radicale\.org/ns/sync/[0-9a-f]{64}", "http://radicale.org/ns/sync/TOKEN", t)
        return t

    def f(srv):
        out = []
        paths = ["/"]
        for u in (10, 11):
            paths.append(xh.path_str((u,)))
            for c in (20, 21, 22):
                paths.append(xh.path_str((u, c)))
                for i in (100, 101, 200, 201):
                    paths.append(xh.path_str((u, c, i)))
        for pth in paths:
            is_item = pth.endswith((".ics", ".vcf"))
            hrefs = "".join("<D:href>%s</D:href>" % h for h in paths if h.endswith((".ics", ".vcf")))[:4000]
            for label, body in RAW_REPORTS.items():
                if is_item and label not in ("multiget", "sync-collection"):
                    continue
                st, h, b = srv.request("REPORT", pth, data=(body % hrefs) if "%s" in body else body, login=login)
                out.append((pth, "REPORT " + label, st, h.get("Content-Type"), norm(b)))
            for label, body in RAW_PROPFINDS.items():
                for depth in (("0",) if is_item else ("0", "1")):
                    st, h, b = srv.request("PROPFIND", pth, data=body, login=login, HTTP_DEPTH=depth)
                    out.append((pth, "PROPFIND %s depth %s" % (label, depth), st, h.get("Content-Type"), norm(b)))
            for meth, extra in (("GET", {}), ("GET", dict(HTTP_ACCEPT_ENCODING="gzip")), ("HEAD", {}), ("OPTIONS", {})):
                st, h, b = srv.request(meth, pth, login=login, **extra)
                hh = tuple(sorted((k, v) for k, v in h.items() if k.lower() not in ("last-modified", "date")))
                out.append((pth, meth + (" gzip" if extra else ""), st, hh, norm(b) if "gzip" not in str(h.get("Content-Encoding")) else len(b)))
        return out
    return f


def two_store_differential(ctx, n):
    """3a. Two stores differing only inside dark subtrees; same requests; same responses; same visible evolution."""
    rng = ctx.rng
    et = x_hcheck.etags()
    done = 0
    tries = 0
    while done < n and tries < n * 6:
        tries += 1
        world = xh.gen_world(rng)
        cfg, pols = world
        ui = rng.choice([1, 2, 0])
        table = pols[ui][1]
        ds = dark_roots(table)
        if not ds:
            continue
        # setup: a populated store; variant B differs inside the dark subtrees only
        def setup_hist(variant):
            # both homes exist in both variants (the gate creates them): the variants differ INSIDE dark subtrees only
            h = [(1, ("RPropfind", (10,), False)), (2, ("RPropfind", (11,), False))]
            for c in [(10, 20), (10, 21), (11, 20), (11, 22), (10, 22)]:
                dark = any(c[:len(d)] == d for d in ds)
                owner = 1 if c[0] == 10 else 2
                if dark and variant == 1:
                    k = rng.random()
                    if k < 0.35:
                        continue                                  # the collection does not exist at all
                kind = rng.choice(["cal", "cal", "adr", "plain"]) if (dark and variant == 1) else ("adr" if c[1] == 21 else "cal")
                if kind == "cal":
                    h.append((owner, ("RMkcalendar", c, ("XProps", ("TRNone",), [(1, rng.randrange(3))] if (dark and variant == 1) else [(1, 0)]))))
                elif kind == "adr":
                    h.append((owner, ("RMkcol", c, ("XProps", ("TRSet", "TAdr"), []))))
                else:
                    h.append((owner, ("RMkcol", c, ("XNone",))))
                    continue
                for j in range(3):
                    if dark and variant == 1 and rng.random() < 0.5:
                        continue
                    card = kind == "adr"
                    o = (j, "CCard" if card else "CEvent", (rng.randrange(3) if (dark and variant == 1) else j % 3))
                    h.append((owner, ("RPut", c + ((200 if card else 100) + j,), "CTNone", ("BCards" if card else "BCal", [o]), ("CNone",), False)))
            return h
        state = rng.getstate()
        sa = setup_hist(0)
        sb = setup_hist(1)
        probes = [(ui, r) for (_, r) in xh.gen_history(rng, rng.randrange(6, 20), et)]
        # the REPORTs that list or summarise a collection's members: on dark and on visible paths, collections and items
        qpaths = [(10, 20), (10, 21), (11, 20), (11, 22), (10, 22), (10, 20, 100), (11, 20, 101), (10, 21, 200), (10,), (11,)]
        for _q in range(4):
            probes.insert(rng.randrange(len(probes) + 1), (ui, xh.gen_query(rng, rng.choice(qpaths))))
        ulogin = (xh.USERS[ui] + ":") if xh.USERS[ui] else None
        want_raw = done % 3 == 0            # every third pair also gets the raw observers (about 700 requests per store)
        # "all store contents": in half of the pairs store B also holds a collection NESTED INSIDE a calendar or address book
        # the user can see (no request creates that; a restored or synchronised folder can hold it), on a path the policy
        # gives the user nothing on -- one more dark subtree
        nested = []
        if rng.random() < 0.5:
            for c in [(10, 20), (10, 21), (11, 20), (11, 22), (10, 22)]:
                if not any(c[:len(d)] == d for d in ds) and table.get(c + (22,), "") == "" and rng.random() < 0.6:
                    nested.append(c + (22,))

        def plant(srv):
            import json as _json
            for q in nested:
                d = os.path.join(srv.folder, "collection-root", *[xh.name_str(x) for x in q])
                pf = os.path.join(os.path.dirname(d), ".Radicale.props")
                if not os.path.isfile(pf) or not _json.load(open(pf)).get("tag"):
                    continue                                  # only inside calendars / address books that exist
                os.makedirs(d, exist_ok=True)
                with open(os.path.join(d, ".Radicale.props"), "w") as f:
                    _json.dump({"tag": "VCALENDAR", "D:displayname": "v1"}, f)
                with open(os.path.join(d, "n0.ics"), "w", newline="") as f:
                    f.write(xh.body_text(("BCal", [(0, "CEvent", 1)])))
            ctx.count("two-store-nested-collections-planted", len(nested))
        ds = ds + nested
        ra = xh.Runner(et)
        ra.after = raw_observers(ulogin) if want_raw else None
        outs_a = ra.run(world, probes, want_store=True, setup=(SETUP_POLS, sa))
        rb = xh.Runner(et)
        rb.after = raw_observers(ulogin) if want_raw else None
        rb.plant = plant if nested else None
        outs_b = rb.run(world, probes, want_store=True, setup=(SETUP_POLS, sb))

        def visible(dump):
            return [e for e in dump if not any(e[0][:len(d)] == d for d in ds)]
        done += 1
        ctx.case(("ni", repr(probes), repr(world), ui), nontrivial=any(o[0] in ("S200", "S201", "S204", "S207") for o in outs_a))
        ctx.count("two-store-pairs")
        for k, (a, b) in enumerate(zip(outs_a, outs_b)):
            if a != b or visible(ra.dumps[k]) != visible(rb.dumps[k]):
                ctx.violation("two stores differing only in subtrees dark for user %r answer request %d differently" % (xh.USERS[ui], k),
                              dict(world=x_hcheck.world_json(world), user=ui, dark_roots=ds, setup_a=sa, setup_b=sb, probes=probes[:k + 1],
                                   response_a=repr(a), response_b=repr(b)))
                return
        if want_raw:
            ctx.count("two-store-raw-observer-requests", len(ra.after_out))
            for x, y in zip(ra.after_out, rb.after_out):
                if x != y:
                    # a path inside a dark subtree may only ever be answered identically in both stores
                    ctx.violation("two stores differing only in subtrees dark for user %r answer %s %s differently (%s vs %s)" % (
                        xh.USERS[ui], x[1], x[0], x[2], y[2]),
                        dict(world=x_hcheck.world_json(world), user=ui, dark_roots=ds, setup_a=sa, setup_b=sb, probes=probes,
                             request=[x[0], x[1]], response_a=repr(x[2:])[:3000], response_b=repr(y[2:])[:3000]))
                    return
    ctx.extra["two_store_pairs"] = done


def access_check_correspondence(ctx):
    """The real Access.check (app/base.py) vs Model/Access.v on the full product of small permission sets."""
    from radicale.app.base import Access
    from radicale import storage
    from radicale import item as ritem

    class FakeRights:
        def __init__(self, table):
            self.table = table

        def authorization(self, user, path):
            return self.table.get(path, "")

    class FakeColl(storage.BaseCollection):
        def __init__(self, tag):
            self._tag = tag

        @property
        def tag(self):
            return self._tag

    class FakeItem:            # anything that is not a BaseCollection and truthy
        pass
    sets = ["", "r", "w", "R", "W", "rw", "RW", "d", "D", "o", "O", "rD", "Wd", "RrWw", "i"]
    cases = []
    for perms in sets:
        for pperms in sets:
            for root in (False, True):
                for permission in "rwdDoO":
                    for kind, it in (("NoItem", None), ("(IsCollection [86]%N)", FakeColl("VCALENDAR")),
                                     ("(IsCollection []%N)", FakeColl("")), ("IsItem", FakeItem())):
                        path = "/" if root else "/a/b/"
                        parent = "/" if root else "/a/"
                        acc = Access(FakeRights({path: perms, parent: pperms} if not root else {path: perms}), "u", path)
                        got = acc.check(permission, it)
                        pp = perms if root else pperms
                        cases.append(((perms, pp, root, permission, kind), bool(got)))
                        ctx.case(("access", perms, pp, root, permission, kind), nontrivial=bool(perms or pperms))

    def enc_in(c):
        perms, pp, root, permission, kind = c
        es = lambda x: "[" + ";".join(str(ord(ch)) for ch in x) + "]%N"   # noqa: E731
        return "(%s, %s, %s, %s, %s)" % (es(perms), es(pp), "true" if root else "false", es(permission), kind)
    header = """From Coq Require Import List NArith Bool.
Import ListNotations.
Require Import RV.Lib.PyStr RV.Lib.Item RV.Model.Access.
Definition run_ac (c : pystr * pystr * bool * pystr * item_kind) : bool :=
  let '(a, b, r, p, k) := c in match access_check a b r p k with Some x => x | None => false end.
"""
    bad = ctx.diff_cases("c03_access", header, "run_ac", cases, enc_in, lambda b: "true" if b else "false", "Bool.eqb", shard=2500)
    if bad is not None:
        ctx.obligation("correspondence:access_check", not bad, "" if not bad else "first: %r" % (cases[bad[0]],))
    ctx.count("cases:access_check", len(cases))


def gen_cross_user(rng, et):
    """Owner-only style tables; both users populate their own collections; then everybody attacks everybody else's."""
    pols = []
    for ui, u in enumerate(xh.USERS):
        t = {}
        for p in [(), (10,), (11,), (10, 20), (10, 21), (11, 20), (11, 22), (10, 22), (10, 20, 101)]:
            if p == ():
                t[p] = "R" if u else ""
            elif u and p[0] == xh.USER_NAME[u]:
                t[p] = "RW" if len(p) == 1 else ("rw" if len(p) == 2 else "")
            else:
                t[p] = ""
        pols.append((xh.USER_NAME.get(u), t))
    cfg = (rng.random() < 0.8, rng.random() < 0.8)
    hist = []
    for owner, colls in ((1, [(10, 20), (10, 21)]), (2, [(11, 20), (11, 22)])):
        for c in colls:
            card = c[1] == 21
            hist.append((owner, ("RMkcol", c, ("XProps", ("TRSet", "TAdr"), [])) if card else ("RMkcalendar", c, ("XNone",))))
            for j in range(2):
                o = (j, "CCard" if card else "CEvent", rng.randrange(3))
                hist.append((owner, ("RPut", c + ((200 if card else 100) + j,), "CTNone", ("BCards" if card else "BCal", [o]), ("CNone",), False)))
    own = {1: [(10, 20), (10, 21)], 2: [(11, 20), (11, 22)], 0: []}
    # 'i' (direct GET of a whole calendar only) granted by a rule that also matches deeper paths
    for ui, (uname, t) in enumerate(pols):
        for u2 in (1, 2):
            if u2 != ui and rng.random() < 0.5:
                for c in own[u2]:
                    t[c] = rng.choice(["i", "i", ""])
                    for j in range(3):
                        t[c + ((200 if c[1] == 21 else 100) + j,)] = "i"
            elif u2 != ui and rng.random() < 0.6:
                # rules that match item paths only (e.g. `collection: team/cal/status-{user}\.ics`): letters on a
                # member's own path, nothing on the collection -- members are governed by the PARENT's letters
                for c in own[u2]:
                    for j in range(4):
                        t[c + ((200 if c[1] == 21 else 100) + j,)] = rng.choice(["w", "W", "wW", "rw", "RWrw", "r", "d", "wd"])
    for _ in range(rng.randrange(6, 16)):
        ui = rng.choice([1, 2, 0])
        victim = rng.choice([c for u2 in (1, 2) if u2 != ui for c in own[u2]])
        mine = rng.choice(own[ui]) if own[ui] else victim
        card_v = victim[1] == 21
        vitem = victim + ((200 if card_v else 100) + rng.randrange(3),)
        card_m = mine[1] == 21
        mitem = mine + ((200 if card_m else 100) + rng.randrange(2),)
        o = (rng.randrange(4), "CCard" if card_v else "CEvent", rng.randrange(3))
        hist.append((ui, rng.choice([
            ("RMove", mitem, True, vitem, True), ("RMove", mitem, True, victim + (103,), False), ("RMove", vitem, True, mine + (103,), True),
            ("RPut", vitem, "CTNone", ("BCards" if card_v else "BCal", [o]), ("CNone",), False),
            ("RPut", victim, "CTNone", ("BCards" if card_v else "BCal", [o]), ("CNone",), False),
            ("RDelete", vitem, ("CNone",)), ("RDelete", victim, ("CNone",)), ("RDelete", victim[:1], ("CNone",)),
            ("RProppatch", victim, ("XProps", ("TRNone",), [(1, 2)])), ("RMkcol", victim[:1] + (22,), ("XNone",)),
            ("RMkcalendar", victim[:1] + (21,), ("XNone",)), ("RGet", vitem), ("RGet", victim), ("RPropfind", victim, True),
            ("RPropfind", victim[:1], True), ("RMultiget", mine, not card_m, [vitem, mitem]), ("RMultiget", victim, not card_v, [vitem]),
            xh.gen_query(rng, victim), xh.gen_query(rng, vitem), ("RQuery", victim, "QAdr" if card_v else "QCal", None),
            ("RQuery", victim, "QSync", None), ("RQuery", vitem, "QSync", None), ("RQuery", victim, "QFreeBusy", ("range", True)),
            ("RQuery", vitem, "QFreeBusy", ("range", True)),
        ])))
    return (cfg, pols), hist


def resource_type_equivalence(ctx):
    """Every typed collection (calendar, address book, subscription) is created under the SAME access decision: the handler
    model covers calendars and address books; a resource type it does not know must not be cheaper."""
    kinds = {"calendar": '<C:calendar xmlns:C="urn:ietf:params:xml:ns:caldav"/>',
             "addressbook": '<CR:addressbook xmlns:CR="urn:ietf:params:xml:ns:carddav"/>',
             "subscribed": '<CS:subscribed xmlns:CS="http://calendarserver.org/ns/"/>'}
    body = ('<?xml version="1.0"?><D:mkcol xmlns:D="DAV:"><D:set><D:prop><D:resourcetype><D:collection/>%s</D:resourcetype>'
            '<D:displayname>x</D:displayname></D:prop></D:set></D:mkcol>')
    conf = {"auth": {"type": "none"}, "rights": {"type": "vlib.x_rights"}}
    for perms_path in ("", "W", "w", "Ww", "RW", "rw", "R", "r", "RrWw"):
        for perms_parent in ("RW", "RrWw", "Rr", ""):
            got = {}
            for kind, el in kinds.items():
                xh.POLICY.clear()
                xh.POLICY[("u0", "")] = "R"
                xh.POLICY[("u0", "u0")] = perms_parent
                xh.POLICY[("u0", "u0/c2")] = perms_path
                with impl.Server(conf=conf) as srv:
                    srv.request("MKCOL", "/u0/", login="u0:")
                    import os as _os
                    _os.makedirs(_os.path.join(srv.folder, "collection-root", "u0"), exist_ok=True)
                    st = srv.request("MKCOL", "/u0/c2/", data=body % el, login="u0:")[0]
                    got[kind] = "created" if st == 201 else ("refused" if st in (401, 403) else str(st))
                ctx.case(("rtype", perms_path, perms_parent, kind), nontrivial=True)
            ctx.count("resource-type-equivalence:%s" % "/".join(sorted(set(got.values()))))
            if len(set(got.values())) != 1:
                ctx.violation("MKCOL of a typed collection under permissions %r (parent %r) is decided differently per resource type: %r" % (
                    perms_path, perms_parent, got), dict(path_permissions=perms_path, parent_permissions=perms_parent, outcomes=got))
                return


def run(ctx):
    ctx.rule = ("(i) handler histories as in C01 but with ~40% random permission tables (letters R r W w i d D o O in any mix) for three "
                "users incl. anonymous; (ii) pairs of stores differing only inside subtrees dark for the probing user, same 6-20 requests; "
                "non-trivial = some request succeeds; distinct by (history, world)")
    ctx.assumptions += ["policies are tables over the universe's paths (default: no permission); the four built-in back-ends are C04",
                        "request paths are sanitised (C06) before they reach Access"]
    ctx.prove(extra_targets=x_hcheck.EXTRA)
    state = {}

    def monitor(world, hist, outs, runner):
        payload_monitor(ctx, state, world, hist, outs, runner)
        write_monitor(ctx, state, world, hist, outs, runner)
    access_check_correspondence(ctx)
    x_hcheck.run_histories(ctx, ctx.n(200, 6000), monitor=monitor, tag="c03")
    x_hcheck.run_histories(ctx, ctx.n(80, 2500), gen=gen_cross_user, monitor=monitor, tag="c03x")
    two_store_differential(ctx, ctx.n(60, 2500))
    resource_type_equivalence(ctx)


def replay(ctx, path):
    print(open(path).read()[:8000])
    return 0
