"""C14 -- Calendar objects and contacts come back exactly as they were stored.

1. proof: Props/C14.v (content-line codec round trip, TEXT codec, clean-ups, export state machine, split by UID)
2. correspondence (tie K): the Coq models run with vm_compute against
     - vobject's foldOneLine / getLogicalLines (both unfolders) / parseLine+ContentLine / defaultSerialize /
       stringToTextValues / backslashEscape                                  (Model/ContentLine.v)
     - radicale.item.read_components' text clean-ups, check_and_sanitize_items, Item.serialize: the whole single
       object PUT pipeline, byte for byte                                   (Model/Vobj.v put_model)
     - the real BaseCollection.serialize on real stored items               (Model/Export.v)
     - the real app.put.prepare on whole-calendar uploads                   (Model/Split.v)
     - vobject's behaviour tables (which property gets which codec)         (Model/Vobj.v value_class)
3. monitors on the in-process server: objects from the generator grammar are uploaded; GET, REPORT
   calendar-data/address-data (multiget and query) and the whole-collection export are parsed by an independent
   content-line parser and compared as multisets of (component path, name, parameters, value) with the upload
   modulo the documented clean-ups; re-uploading the returned text must give identical bytes and ETag; a whole
   calendar / address book uploaded and downloaded again must preserve the objects grouped by UID, each
   VTIMEZONE once and unchanged.
"""
import base64
import collections
import io
import json
import logging
import os
import re
import xml.etree.ElementTree as ET

from vlib import core, x_C14 as X
from vlib.core import enc_str, enc_bool, enc_opt, enc_list, enc_N

HEADER = """From Coq Require Import List NArith ZArith Bool String.
Import ListNotations.
Require Import RV.Lib.PyStr RV.Model.ContentLine RV.Model.Vobj RV.Model.Export RV.Model.Split RV.Model.Codec RV.Model.UidAssign.
Open Scope N_scope.
Definition eq_os (a b : option pystr) := match a, b with Some x, Some y => eqs x y | None, None => true | _, _ => false end.
(* model vs implementation on an upload: when the implementation ACCEPTS, the model must give the same bytes; when it
   refuses, no claim (refusals for value-level reasons -- invalid recurrence set, DTEND with a non-zero DURATION -- are outside the model) *)
Definition eq_os_acc (m e : option pystr) := match e with None => true | Some y => match m with Some x => eqs x y | None => false end end.
Fixpoint eq_ls (a b : list pystr) := match a, b with [], [] => true | x :: a', y :: b' => eqs x y && eq_ls a' b' | _, _ => false end.
Definition eq_params (a b : list (pystr * list pystr)) :=
  (fix go a b := match a, b with [], [] => true | (k, v) :: a', (k', v') :: b' => eqs k k' && eq_ls v v' && go a' b' | _, _ => false end) a b.
Definition eq_cl (a b : cl) := eq_os (cl_group a) (cl_group b) && eqs (cl_name a) (cl_name b) && eq_params (cl_params a) (cl_params b) && eqs (cl_value a) (cl_value b).
Definition eq_ocl (a b : option cl) := match a, b with Some x, Some y => eq_cl x y | None, None => true | _, _ => false end.
Definition eq_olcl (a b : option (list cl)) :=
  match a, b with Some x, Some y => (fix go x y := match x, y with [], [] => true | p :: x', q :: y' => eq_cl p q && go x' y' | _, _ => false end) x y
  | None, None => true | _, _ => false end.
Definition eq_groups (a b : list (pystr * (list N * list N))) :=
  (fix go a b := match a, b with [], [] => true
   | (u, (c, z)) :: a', (u', (c', z')) :: b' => eqs u u' && eqs c c' && eqs z z' && go a' b' | _, _ => false end) a b.
Definition idblock (n : N) : block := mkBlock [n] [] [].
Definition split_ids (u : upload) : list (pystr * (list N * list N)) :=
  map (fun g => (g_uid g, (map (fun c => hd 0 (b_begin (c_data c))) (g_comps g), map (fun z => hd 0 (b_begin (z_data z))) (g_tzs g)))) (split u).
"""


def enc_cl(c):
    g, n, params, v = c
    return "(mkCl %s %s %s %s)" % (enc_opt(enc_str)(g), enc_str(n), enc_list(lambda kv: "(%s, %s)" % (enc_str(kv[0]), enc_list(enc_str)(kv[1])))(params), enc_str(v))


# ---------------------------------------------------------------------------------------------------------------
# real implementation side
# ---------------------------------------------------------------------------------------------------------------
def impl_modules():
    import vobject
    import vobject.base as vb
    import vobject.icalendar as vi
    from radicale import item as ritem
    from radicale import storage as rstorage
    from radicale.app import put as rput
    logging.getLogger().setLevel(logging.CRITICAL)      # vobject logs unknown TZIDs on the root logger
    return vobject, vb, vi, ritem, rstorage, rput


def real_fold(vb, s):
    buf = io.StringIO()
    vb.foldOneLine(buf, s, 75)
    return buf.getvalue()


def real_unfold(vb, t, qp):
    try:
        return [l for l, _ in vb.getLogicalLines(io.StringIO(t), allowQP=qp)]
    except Exception:
        return None


def real_parse_line(vb, line):
    try:
        name, params, value, group = vb.parseLine(line)
        cl = vb.ContentLine(name, params, value, group, encoded=True)
        return (cl.group, cl.name, [(k, list(v)) for k, v in cl.params.items()], cl.value)
    except Exception:
        return None


def real_print_cl(vb, c):
    g, n, params, v = c
    cl = vb.ContentLine(n, [], v, g, encoded=True)
    cl.params = collections.OrderedDict((k, list(vs)) for k, vs in params)
    buf = io.StringIO()
    vb.defaultSerialize(cl, buf, 10 ** 9)
    out = buf.getvalue()
    assert out.endswith("\r\n")
    return out[:-2]


def real_read_cleanup(ritem, text):
    """The text radicale.item.read_components hands to vobject."""
    seen = []
    orig = ritem.vobject.readComponents
    try:
        ritem.vobject.readComponents = lambda s, **kw: (seen.append(s), iter(()))[1]
        ritem.read_components(text)
    finally:
        ritem.vobject.readComponents = orig
    return seen[0]


def stored_outside_py(o):
    """Stored texts the composition theorem does not speak about (over-approximation of C14Compose.stored_outside):
    a vCard with a PHOTO line (vobject never folds it), a white-space-only physical line (C14:fold-ws), quoted-printable."""
    if "quoted-printable" in o.lower():
        return True
    for p in o.split("\n"):
        p = p.rstrip("\r\n")
        if p and p.isspace():
            return True
    return "BEGIN:VCARD" in o.upper() and re.search(r"(?im)^(?:[^:;\r\n]*\.)?PHOTO[;:]", o) is not None


def real_put_pipeline(ritem, text, tag):
    """read_components -> check_and_sanitize_items -> Item.serialize, as do_PUT/prepare do for one object."""
    try:
        items = ritem.read_components(text)
        ritem.check_and_sanitize_items(items, is_collection=False, tag=tag)
        it, = items
        return ritem.Item(collection_path="u/c", vobject_item=it).serialize()
    except Exception:
        return None


# ---------------------------------------------------------------------------------------------------------------
# small generators for the codec suites
# ---------------------------------------------------------------------------------------------------------------
CHARS = ["a", "Z", "0", "-", "_", ".", " ", "\t", ",", ";", ":", "=", '"', "\\", "n", "N", "é", "日", "😀", "^", "x"]


def rand_logical(rng, g):
    """A logical content line: mostly well-formed, with boundary lengths around 75."""
    name = rng.choice(["SUMMARY", "X-FOO", "ATTENDEE", "item1.EMAIL", "DESCRIPTION", "x-lower", "N_A"])
    params = "".join(";%s=%s" % (k, ",".join(X.render_param_value(v) for v in vs)) for k, vs in g.xparams(rng.choice([0, 0, 1, 2])))
    head = name + params + ":"
    target = rng.choice([60, 73, 74, 75, 76, 77, 149, 150, 151, 20, 300])
    alphabet = rng.choice(["a", "aé", "a日", "a😀é", "ab c"])
    body = "".join(rng.choice(alphabet) for _ in range(max(0, target - len(head))))
    if rng.random() < 0.3:
        i = rng.randrange(len(body) + 1)
        body = body[:i] + rng.choice([" ", "  ", "\t", " " * 80]) + body[i:]
    return head + body


def rand_physical(rng, g):
    """A physical text: folded lines with every kind of line break and stray whitespace lines."""
    out = []
    for _ in range(rng.randint(1, 6)):
        l = rand_logical(rng, g)[:rng.choice([10, 40, 200])]
        eol = rng.choice(["\r\n", "\r\n", "\n", "\r"]) if rng.random() < 0.2 else "\r\n"
        pieces, i = [], 0
        while i < len(l):
            k = rng.choice([1, 5, 20, 75])
            pieces.append(l[i:i + k])
            i += k
        out.append((eol + rng.choice([" ", " ", "\t"])).join(pieces) + eol)
        if rng.random() < 0.15:
            out.append(rng.choice(["", " ", "  ", "\t", " \t "]) + eol)
    t = "".join(out)
    if rng.random() < 0.1:
        t = t.rstrip("\r\n")
    return t


def rand_line_for_parse(rng, g):
    c = rng.random()
    if c < 0.6:
        return rand_logical(rng, g)
    if c < 0.8:   # parameter shapes
        return rng.choice(["A", "X-A", "item2.TEL", "a.b", "G.N"]) + rng.choice([
            ";X=1", ";X=1;Y=2", ";X=1;x=2", ';X="a,b";Y=c,d', ";X=", ';X=""', ";X=a,,b", ";X", ";X;Y=1", ';X="a:b;c"', ";X=a b", ";ENCODING=b", ";TYPE=HOME,WORK;TYPE=PREF",
            ";X=é", ';X="', ";X=a\"b", ";=1", ";;X=1", ";X==1", ";X=1,", ";X=,1"]) + rng.choice([":v", ":", ":a:b;c,d", "", ":é日"])
    return "".join(rng.choice(CHARS) for _ in range(rng.randint(0, 12)))


def rand_text_value(rng):
    return "".join(rng.choice(["a", "b", " ", ",", ";", "\\", "\\,", "\\;", "\\\\", "\\n", "\\N", '"', "\\\"", "\n", "\r", "\r\n", ":", "é", "\\x"]) for _ in range(rng.randint(0, 10)))


# ---------------------------------------------------------------------------------------------------------------
HEAVY = ("put_model", "reload_model", "export")      # whole objects / collections per case: small shards (memory)


def corr(ctx, tag, fn, cases, ie, oe, eqb, key=None, nontrivial=None):
    for i, o in cases:
        k = key(i) if key else repr(i)
        ctx.case((tag, k), nontrivial=(nontrivial(i, o) if nontrivial else True))
    ctx.count("cases:" + tag, len(cases))
    ctx.log("correspondence", tag, len(cases), "cases")
    bad = ctx.diff_cases("c14_" + tag, HEADER, fn, cases, ie, oe, eqb, shard=max(1, min(4 if tag == "export" else 25 if tag in HEAVY else 150, -(-len(cases) // 16))))
    if bad is None:
        return None
    ok = not bad
    ctx.obligation("correspondence:%s" % tag, ok,
                   "" if ok else "model differs from implementation on %d of %d cases, first: %r" % (len(bad), len(cases), cases[bad[0]]))
    if bad:
        ctx.extra.setdefault("disagreements", {})[tag] = [repr(cases[b])[:600] for b in bad[:3]]
    return bad


# vobject behaviour tables as Model/Vobj.v states them (raw_names / multi_names); compared with the library
MODEL_TABLE = {
    "VCALENDAR": (["VERSION"], {}),
    "VEVENT": (["ATTACH", "ATTENDEE", "CREATED", "DTSTAMP", "DTSTART", "EXDATE", "EXRULE", "LAST-MODIFIED", "ORGANIZER", "RDATE", "RECURRENCE-ID",
                "RRULE", "SEQUENCE", "URL", "DTEND", "DURATION", "GEO", "PRIORITY"], {"CATEGORIES": ",", "RESOURCES": ",", "REQUEST-STATUS": ";"}),
    "VTODO": (["ATTACH", "ATTENDEE", "CREATED", "DTSTAMP", "DTSTART", "EXDATE", "EXRULE", "LAST-MODIFIED", "ORGANIZER", "RDATE", "RECURRENCE-ID",
               "RRULE", "SEQUENCE", "URL", "COMPLETED", "DUE", "DURATION", "GEO", "PERCENT", "PRIORITY"], {"CATEGORIES": ",", "RESOURCES": ",", "REQUEST-STATUS": ";"}),
    "VJOURNAL": (["ATTACH", "ATTENDEE", "CREATED", "DTSTAMP", "DTSTART", "EXDATE", "EXRULE", "LAST-MODIFIED", "ORGANIZER", "RDATE", "RECURRENCE-ID",
                  "RRULE", "SEQUENCE", "URL"], {"CATEGORIES": ",", "REQUEST-STATUS": ";"}),
    "VALARM": (["DURATION", "REPEAT", "TRIGGER"], {}),
    "VTIMEZONE": (["LAST-MODIFIED", "TZID", "TZURL"], {}),
    "STANDARD": (["DTSTART", "RRULE"], {}),
    "DAYLIGHT": (["DTSTART", "RRULE"], {}),
    "VCARD": (["ADR", "GEO", "N", "ORG", "VERSION"], {"CATEGORIES": ","}),
}


def behaviour_table(vb):
    """(raw names, multi-text names) per component, read off the installed vobject."""
    from vobject import behavior
    out = {}
    for comp in MODEL_TABLE:
        beh = vb.getBehavior(comp)
        raw, multi = [], {}
        for name, tup in beh.knownChildren.items():
            b = vb.getBehavior(name, tup[2])
            if b is not None and b.isComponent:
                continue
            has_codec = b is not None and b.decode.__func__ is not behavior.Behavior.decode.__func__
            if not has_codec:
                raw.append(name)
            elif hasattr(b, "listSeparator"):
                multi[name] = b.listSeparator
        out[comp] = (sorted(raw), multi, beh.defaultBehavior.__name__ if beh.defaultBehavior else None,
                     list(getattr(beh, "sortFirst", ())))
    return out


SORT_FIRST = {"VCALENDAR": ["version", "calscale", "method", "prodid", "vtimezone"], "VTIMEZONE": ["tzid", "last-modified", "tzurl", "standard", "daylight"],
              "VEVENT": ["uid", "recurrence-id", "dtstart", "duration", "dtend"], "VCARD": ["version", "prodid", "uid"],
              "VTODO": [], "VJOURNAL": [], "VALARM": [], "STANDARD": [], "DAYLIGHT": []}


# ---------------------------------------------------------------------------------------------------------------
def run(ctx):
    ctx.rule = ("objects: trees drawn from the generator grammar of vlib/x_C14.py (VEVENT/VTODO/VJOURNAL with VALARM, VTIMEZONE, RRULE/EXDATE/RDATE, "
                "overrides; vCard 3.0/4.0; escaped text, non-ASCII, quoted and multi-valued parameters, groups, X- properties, DATE/DATE-TIME/TZID "
                "values), rendered with CRLF or LF and five folding styles; distinct by the upload text; non-trivial = the object has a folded or "
                "multi-byte line, an escape, a quoted parameter or a clean-up case.  codec suites: logical lines with lengths around 75/150 octets, "
                "physical texts with every line-break kind and whitespace-only lines, parameter shapes incl. malformed; distinct by string.")
    ctx.assumptions += [
        "vobject 0.9.x (parse, value codecs, serialisation order, folding) is MODELLED for the generator grammar, not verified: tied by correspondence only",
        "quoted-printable (vCard 2.1), PERIOD values, VFREEBUSY/VAVAILABILITY and non-canonical native values (durations, N/ADR/ORG field counts) are outside the byte-exact model; the monitors cover them by value equivalence",
        "SHA-256 ETags: equal ETag <=> equal text",
        "Python str.lower()/re.IGNORECASE on non-ASCII letters (Kelvin sign, long s) is outside the model",
    ]
    ctx.prove()
    vobject, vb, vi, ritem, rstorage, rput = impl_modules()
    rng = ctx.rng
    g = X.Gen(rng)

    # ------------------------------------------------------------ vobject tables the model relies on
    live = behaviour_table(vb)
    diffs = []
    for comp, (raw, multi) in MODEL_TABLE.items():
        lraw, lmulti, ldefault, lfirst = live[comp]
        if sorted(raw) != lraw or multi != lmulti:
            diffs.append("%s: model raw=%s multi=%s, library raw=%s multi=%s" % (comp, sorted(raw), multi, lraw, lmulti))
        if ldefault not in ("TextBehavior", "VCardTextBehavior"):
            diffs.append("%s: default behaviour %s" % (comp, ldefault))
        if SORT_FIRST[comp] != lfirst:
            diffs.append("%s: sortFirst %s" % (comp, lfirst))
    ctx.obligation("correspondence:vobject-behaviour-tables", not diffs, "\n".join(diffs))

    # ------------------------------------------------------------ codec suites (Model/ContentLine.v)
    n = ctx.n(240, 3000)
    logical = [rand_logical(rng, g) for _ in range(n)]
    corr(ctx, "fold", "fold_line", [(s, real_fold(vb, s)) for s in logical], enc_str, enc_str, "eqs",
         nontrivial=lambda i, o: len(i) >= 75)
    phys = [rand_physical(rng, g) for _ in range(n)] + [real_fold(vb, s) for s in logical[:n // 3]]
    corr(ctx, "unfold_std", "unfold_std", [(t, real_unfold(vb, t, False)) for t in phys], enc_str, enc_list(enc_str), "eq_ls")
    corr(ctx, "unfold_qp", "unfold_qp", [(t, real_unfold(vb, t, True)) for t in phys], enc_str, enc_list(enc_str), "eq_ls")
    plines = [rand_line_for_parse(rng, g) for _ in range(n)]
    corr(ctx, "parse_cl", "parse_cl", [(s, real_parse_line(vb, s)) for s in plines if "QUOTED-PRINTABLE" not in s.upper()],
         enc_str, enc_opt(enc_cl), "eq_ocl", nontrivial=lambda i, o: o is not None and bool(o[2]))
    parsed = [real_parse_line(vb, s) for s in plines]
    cls = [c for c in parsed if c is not None and all('"' not in v for _, vs in c[2] for v in vs)]
    corr(ctx, "print_cl", "print_cl", [(c, real_print_cl(vb, c)) for c in cls], enc_cl, enc_str, "eqs", key=repr)
    tvals = [rand_text_value(rng) for _ in range(n)]
    tv_ok = [t for t in tvals if not t.endswith("\\") or t.endswith("\\\\")]
    for sep, nm in ((",", "comma"), (";", "semi")):
        corr(ctx, "text_values_" + nm, "text_values %d" % ord(sep), [(t, vi.stringToTextValues(t, listSeparator=sep)) for t in tvals],
             enc_str, enc_list(enc_str), "eq_ls")
    corr(ctx, "backslash_escape", "backslash_escape", [(t, vb.backslashEscape(t)) for t in tvals], enc_str, enc_str, "eqs")

    # ------------------------------------------------------------ the two concrete charsets of Model/Codec.v
    def py_enc(t, cs):
        try:
            return list(t.encode(cs))
        except UnicodeError:
            return None

    def py_dec(b, cs):
        try:
            return bytes(b).decode(cs)
        except UnicodeError:
            return None
    texts = ["".join(rng.choice(["a", "\x7f", "\x80", "\xe9", "\xff", "\u0100", "\u07ff", "\u0800", "\u20ac", "\ud7ff", "\ud800", "\udfff", "\ue000",
                                  "\uffff", "\U00010000", "\U0001f600", "\U0010ffff"]) for _ in range(rng.randint(0, 6))) for _ in range(ctx.n(150, 1500))]
    blobs = []
    for t in texts:
        b = py_enc(t, "utf-8") or [rng.randrange(256) for _ in range(rng.randint(1, 5))]
        if b and rng.random() < 0.5:
            k = rng.randrange(len(b))
            b = b[:k] + rng.choice([[], [b[k] ^ 0x40], [0xC0, 0x80], [0xED, 0xA0, 0x80], [0xF4, 0x90, 0x80, 0x80], [0xE0, 0x80, 0x80], [0xF5], [0x80]]) + b[k + 1:]
        blobs.append(b)
    enc_b = lambda b: "(None : option (list N))" if b is None else "(Some %s : option (list N))" % core.enc_bytes(b)
    corr(ctx, "utf8_enc", "enc utf8", [(t, py_enc(t, "utf-8")) for t in texts], enc_str, enc_b, "eq_os")
    corr(ctx, "utf8_dec", "dec utf8", [(b, py_dec(b, "utf-8")) for b in blobs], core.enc_bytes, enc_opt(enc_str), "eq_os")
    corr(ctx, "latin1_enc", "enc latin1", [(t, py_enc(t, "latin-1")) for t in texts], enc_str, enc_b, "eq_os")
    corr(ctx, "latin1_dec", "dec latin1", [(b, py_dec(b, "latin-1")) for b in blobs], core.enc_bytes, enc_opt(enc_str), "eq_os")

    # ------------------------------------------------------------ UID assignment of whole-collection uploads (Model/UidAssign.v)
    def real_assign(lines, tag):
        """check_and_sanitize_items(is_collection=True) on one object whose UID lines are `lines` (values, in order)."""
        orig = ritem.find_available_uid
        ritem.find_available_uid = lambda exists_fn, suffix="": "FRESH"
        try:
            if tag == "VADDRESSBOOK":
                text = "BEGIN:VCARD\r\nVERSION:3.0\r\nFN:x\r\n" + "".join("UID:%s\r\n" % v for v in lines) + "END:VCARD\r\n"
            else:
                text = ("BEGIN:VCALENDAR\r\nVERSION:2.0\r\nPRODID:-//x//EN\r\nBEGIN:VEVENT\r\nDTSTAMP:20200101T000000Z\r\nDTSTART:20200102T100000Z\r\n"
                        + "".join("UID:%s\r\n" % v for v in lines) + "END:VEVENT\r\nEND:VCALENDAR\r\n")
            items = ritem.read_components(text)
            ritem.check_and_sanitize_items(items, is_collection=True, tag=tag)
            holder = items[0] if tag == "VADDRESSBOOK" else items[0].vevent
            return [u.value for u in holder.contents.get("uid", [])]
        except Exception:
            return None
        finally:
            ritem.find_available_uid = orig
    uid_cases = []
    for tag in ("VADDRESSBOOK", "VCALENDAR"):
        for lines in ([], [""], ["a"], ["", ""], ["", "b"], ["a", ""], ["a", "b"], ["", "", "c"]):
            out = real_assign(lines, tag)
            if out is not None:
                uid_cases.append((lines, out))
    corr(ctx, "assign_uid", "(fun vs => uid_values (assign_uid (str \"FRESH\") (L (mkCl None (str \"FN\") [] (str \"x\")) :: map (fun v => L (mkCl None s_UID [] v)) vs)))",
         uid_cases, lambda l: "(%s : list pystr)" % enc_list(enc_str)(l), lambda l: "(%s : list pystr)" % enc_list(enc_str)(l), "eq_ls", key=repr)

    # ------------------------------------------------------------ read_components text clean-ups
    photo_lines = []
    for _ in range(ctx.n(120, 1200)):
        head = rng.choice(["PHOTO", "photo", "Photo", "item1.PHOTO", "PHOTOS", "X-PHOTO", "LOGO"])
        pars = "".join(rng.choice([";ENCODING=b", ";encoding=B", ";TYPE=JPEG", ";ENCODING=base64", ";ENCODING=bb", ";X=\"a:b\"", ";VALUE=uri", ""]) for _ in range(rng.randint(0, 3)))
        val = rng.choice(["data:image/jpeg;base64,", "DATA:image/png;BASE64,", "data:;base64,", "data:image/jpeg,base64,", "data:a;b;base64,", "", "data:image/jpeg;base64",
                          "data:x;base64,data:y;base64,"]) + rng.choice(["QUJD", "", "QUJD\x01RA==", "/9j/4AAQ"])
        pre = rng.choice(["", "", "FN:x\r\n", "BEGIN:VCARD\n", " "])
        photo_lines.append(pre + head + pars + ":" + val + rng.choice(["\r\n", "\n", "", "\r\nEND:VCARD\r\n"]))
    corr(ctx, "read_cleanup", "read_cleanup", [(t, real_read_cleanup(ritem, t)) for t in photo_lines + phys[:60]], enc_str, enc_str, "eqs",
         nontrivial=lambda i, o: i != o)

    # ------------------------------------------------------------ the whole single-object pipeline, byte for byte
    gc = X.Gen(rng, canonical=True)
    put_cases = []
    for i in range(ctx.n(150, 2000)):
        card = rng.random() < 0.3
        tree = gc.card_object("uid-%d" % i) if card else gc.cal_object("uid-%d" % i)
        if rng.random() < 0.25 and not card:
            tree = add_cleanup_case(rng, tree, gc)
        text = gc.render(tree, style=dict(eol=rng.choice(["\r\n", "\n"]), fold=rng.choice(["none", "75", "safe-random", "tab"]),
                                          lower=rng.random() < 0.1, quote_all=rng.random() < 0.1))
        if rng.random() < 0.1:
            k = rng.randrange(len(text))
            text = text[:k] + rng.choice(["\x01", "\x0b", "\x1f", "\x00"]) + text[k:]
        out = real_put_pipeline(ritem, text, "VADDRESSBOOK" if card else "VCALENDAR")
        put_cases.append((text, out))
    for t in CLEANUP_CORPUS:
        put_cases.append((t, real_put_pipeline(ritem, t, "VCALENDAR" if "VCALENDAR" in t else "VADDRESSBOOK")))
    accepted = [c for c in put_cases if c[1] is not None]
    ctx.count("put_model:accepted", len(accepted))
    ctx.count("put_model:refused", len(put_cases) - len(accepted))
    corr(ctx, "put_model", "put_model", put_cases, enc_str, enc_opt(enc_str), "eq_os_acc",
         nontrivial=lambda i, o: o is not None and (len(i) != len(o) or "\r\n " in o))
    # a cache miss recomputes the text from the stored file: must be the stored text (model: reload_model)
    corr(ctx, "reload_model", "reload_model", [(o, real_put_pipeline(ritem, o, "VADDRESSBOOK" if "BEGIN:VCARD" in o else "VCALENDAR"))
                                               for _, o in accepted[:ctx.n(70, 800)]], enc_str, enc_opt(enc_str), "eq_os")
    # the premise of the composition theorems, observed: every stored text of the stream, evaluated inside Coq, meets
    # C14Compose.put_side_ok (values in codec form, no clean-up applicable, vobject's order, well-formed lines with sorted
    # parameters, nothing for the text clean-ups) AND is a fixed point of put_model -- outside the three documented classes
    # (vCard PHOTO lines are never folded; C14:fold-ws; quoted-printable), which the model must classify as such itself
    stored = []
    seen_stored = set()
    for _, o in accepted:
        if o not in seen_stored:
            seen_stored.add(o)
            stored.append((o, 3 if stored_outside_py(o) else 0))
    ctx.count("stored_normal:premise-observed", sum(1 for _, e in stored if e == 0))
    ctx.count("stored_normal:outside-documented", sum(1 for _, e in stored if e == 3))
    hdr = HEADER + "Require Import RV.Proofs.C14Compose.\n"
    for o, e in stored:
        ctx.case(("stored_normal", o), nontrivial=(e == 0))
    ctx.count("cases:stored_normal", len(stored))
    ctx.log("correspondence", "stored_normal", len(stored), "cases")
    bad = ctx.diff_cases("c14_stored_normal", hdr, "stored_check", stored, enc_str, enc_N, "stored_check_ok",
                         shard=max(1, min(25, -(-len(stored) // 16))))
    if bad is not None:
        detail = ""
        if bad:
            try:
                cls = ctx.coq_show(hdr, "stored_check %s" % enc_str(stored[bad[0]][0]))[-80:]
            except Exception as e:      # the classification is only for the message
                cls = "not evaluated (%s)" % e
            detail = ("%d of %d stored texts are not in the normal form the composition theorem needs (C14Compose.stored_check: 1 = premises "
                      "hold but put_model changes the text, 2 = a premise of put_side_ok fails, 3 = outside class the harness does not "
                      "recognise); first: class %s, harness expected %d, text %r" % (len(bad), len(stored), cls, stored[bad[0]][1], stored[bad[0]][0]))
            ctx.extra.setdefault("disagreements", {})["stored_normal"] = [repr(stored[b])[:600] for b in bad[:3]]
        ctx.obligation("correspondence:stored_normal", not bad, detail)
    # the witnesses of Proofs/C14Compose.v (non-vacuity; the two counterexamples to the unconditional statement), stored three
    # times by the real pipeline, byte-exact against the model at each step -- the Examples are about real behaviour
    wit = []
    for t in COMPOSE_WITNESSES:
        for _ in range(3):
            o = real_put_pipeline(ritem, t, "VCALENDAR")
            wit.append((t, o))
            if o is None:
                break
            t = o
    corr(ctx, "compose_witnesses", "put_model", wit, enc_str, enc_opt(enc_str), "eq_os")
    ctx.samples += [dict(upload=t[:400], stored=(o or "")[:400]) for t, o in put_cases[:2]]
    for k, v in list(g.features.items()) + list(gc.features.items()):
        ctx.count("grammar:" + k, v)

    # ------------------------------------------------------------ server-level monitors + export / split correspondence
    from checks import C14_server
    C14_server.run_server_part(ctx, HEADER, corr)


def _mk(*ls):
    return "".join(l + "\r\n" for l in ls)


# ComposeExamples.busy / trailing / empty_param of coq/Proofs/C14Compose.v
COMPOSE_WITNESSES = [
    _mk("BEGIN:VCALENDAR", "PRODID:-//x//EN", "VERSION:2.0", "BEGIN:VEVENT", "SUMMARY:a,b;c", "DTSTART;VALUE=DATE:20200102", "UID:u1",
        "DTSTAMP:20200101T000000Z", "EXDATE;X-A=1:20200103T100000Z", "DTEND;VALUE=DATE:20200103", "DURATION:PT0S", "CATEGORIES:a,b",
        'ATTENDEE;ROLE=CHAIR;CN="Doe, J":mailto:x@y', "BEGIN:VALARM", "TRIGGER:-PT5M", "ACTION:DISPLAY", "END:VALARM", "END:VEVENT",
        "END:VCALENDAR"),
    _mk("BEGIN:VCALENDAR", "VERSION:2.0", "PRODID:-//x//EN", "BEGIN:VEVENT", "UID:u1", "DTSTAMP:20200101T000000Z",
        "DTSTART:20200102T100000Z", "SUMMARY:s", "CATEGORIES:a,,", "END:VEVENT", "END:VCALENDAR"),
    _mk("BEGIN:VCALENDAR", "VERSION:2.0", "PRODID:-//x//EN", "BEGIN:VEVENT", "UID:u1", "DTSTAMP:20200101T000000Z",
        "DTSTART:20200102T100000Z", 'ATTENDEE;CN="":mailto:x@y', "END:VEVENT", "END:VCALENDAR"),
]


CLEANUP_CORPUS = [
    # zero DURATION next to DTEND (Lightning)
    "BEGIN:VCALENDAR\r\nVERSION:2.0\r\nPRODID:-//x//EN\r\nBEGIN:VEVENT\r\nUID:z1\r\nDTSTAMP:20200101T000000Z\r\nDTSTART:20200102T100000Z\r\n"
    "DTEND:20200102T110000Z\r\nDURATION:PT0S\r\nSUMMARY:z\r\nEND:VEVENT\r\nEND:VCALENDAR\r\n",
    # EXDATE as DATE while DTSTART is DATE-TIME (Evolution), with TZID
    "BEGIN:VCALENDAR\r\nVERSION:2.0\r\nPRODID:-//x//EN\r\nBEGIN:VTIMEZONE\r\nTZID:Zone/X\r\nBEGIN:STANDARD\r\nDTSTART:19701025T030000\r\n"
    "TZOFFSETFROM:+0200\r\nTZOFFSETTO:+0100\r\nEND:STANDARD\r\nEND:VTIMEZONE\r\nBEGIN:VEVENT\r\nUID:x1\r\nDTSTAMP:20200101T000000Z\r\n"
    "DTSTART;TZID=Zone/X:20200102T100000\r\nRRULE:FREQ=DAILY;COUNT=9\r\nEXDATE;VALUE=DATE:20200103,20200105\r\nRDATE;VALUE=DATE:20200120\r\nEND:VEVENT\r\nEND:VCALENDAR\r\n",
    # EXDATE as DATE-TIME while DTSTART is DATE
    "BEGIN:VCALENDAR\r\nVERSION:2.0\r\nPRODID:-//x//EN\r\nBEGIN:VEVENT\r\nUID:x2\r\nDTSTAMP:20200101T000000Z\r\nDTSTART;VALUE=DATE:20200102\r\n"
    "RRULE:FREQ=DAILY;COUNT=9\r\nEXDATE:20200103T100000Z\r\nEND:VEVENT\r\nEND:VCALENDAR\r\n",
    # NOT a clean-up: zero DURATION without DTEND (VEVENT, recurring) and in a VTODO: must stay
    "BEGIN:VCALENDAR\r\nVERSION:2.0\r\nPRODID:-//x//EN\r\nBEGIN:VEVENT\r\nUID:z2\r\nDTSTAMP:20200101T000000Z\r\nDTSTART:20200102T100000Z\r\n"
    "DURATION:PT0S\r\nRRULE:FREQ=DAILY;COUNT=3\r\nSUMMARY:instant\r\nEND:VEVENT\r\nEND:VCALENDAR\r\n",
    "BEGIN:VCALENDAR\r\nVERSION:2.0\r\nPRODID:-//x//EN\r\nBEGIN:VTODO\r\nUID:z3\r\nDTSTAMP:20200101T000000Z\r\nDTSTART:20200102T100000Z\r\n"
    "DURATION:PT0S\r\nSUMMARY:instant\r\nEND:VTODO\r\nEND:VCALENDAR\r\n",
    # PHOTO data URI (InfCloud)
    "BEGIN:VCARD\r\nVERSION:3.0\r\nUID:p1\r\nFN:P\r\nN:P;;;;\r\nPHOTO;ENCODING=b;TYPE=JPEG:data:image/jpeg;base64,QUJDRA==\r\nEND:VCARD\r\n",
    # control characters
    "BEGIN:VCALENDAR\r\nVERSION:2.0\r\nPRODID:-//x//EN\r\nBEGIN:VEVENT\r\nUID:c1\r\nDTSTAMP:20200101T000000Z\r\nDTSTART:20200102T100000Z\r\n"
    "SUMMARY:a\x01b\x0bc\x1fd\te\r\nEND:VEVENT\r\nEND:VCALENDAR\r\n",
]


def add_cleanup_case(rng, tree, g):
    """Plant one of the documented clean-up situations into a calendar object tree."""
    name, lines, subs = tree
    new = []
    for s in subs:
        if s[0] in ("VEVENT", "VTODO", "VJOURNAL"):
            sl = list(s[1])
            names = [l[1] for l in sl]
            dts = [l for l in sl if l[1] == "DTSTART"]
            kind = rng.choice(["zero", "zero-no-end", "exdate", "exdate"])
            if kind == "zero-no-end" and dts and not re.match(r"^\d{8}$", dts[0][3]):
                # NOT a clean-up case: a zero DURATION without DTEND / DUE is the length of the component and stays
                sl = [l for l in sl if l[1] not in ("DTEND", "DUE", "DURATION")] + [(None, "DURATION", (), "PT0S" if g.canonical else rng.choice(["PT0S", "P0D", "PT0M"]))]
                g.features["duration:zero-without-dtend"] += 1
            if kind == "zero" and "DTEND" in names:
                sl = [l for l in sl if l[1] != "DURATION"] + [(None, "DURATION", (), rng.choice(["PT0S", "P0D", "PT0H0M0S", "-PT0S", "P0W", "PT1H"]))]
                g.features["cleanup:zero-duration"] += 1
            elif kind == "exdate" and dts:
                d = dts[0]
                is_date = bool(re.match(r"^\d{8}$", d[3]))
                nm = rng.choice(["EXDATE", "RDATE"])
                if is_date:
                    sl.append((None, nm, (), ",".join(g.date() + "T" + g.time() + "Z" for _ in range(rng.choice([1, 2])))))
                else:
                    sl.append((None, nm, (("VALUE", ("DATE",)),), ",".join(g.date() for _ in range(rng.choice([1, 2])))))
                g.features["cleanup:exdate-type"] += 1
            new.append((s[0], sl, s[2]))
        else:
            new.append(s)
    return (name, lines, new)


def replay(ctx, path):
    data = json.load(open(path))
    print(json.dumps(data, indent=1)[:6000])
    return 0
