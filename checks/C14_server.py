"""C14, server-level part: monitors on the in-process server and the export / split correspondences.
(helper module of checks/C14.py, not a check of its own)"""
import collections
import re
import xml.etree.ElementTree as ET

from vlib import core, impl, x_C14 as X
from vlib.core import enc_str, enc_opt, enc_list, enc_N

NS = impl.NS


def multiget_body(kind, hrefs):
    if kind == "cal":
        return ('<?xml version="1.0"?><C:calendar-multiget xmlns:D="DAV:" xmlns:C="urn:ietf:params:xml:ns:caldav"><D:prop><D:getetag/>'
                '<C:calendar-data/></D:prop>%s</C:calendar-multiget>' % "".join("<D:href>%s</D:href>" % h for h in hrefs))
    return ('<?xml version="1.0"?><CR:addressbook-multiget xmlns:D="DAV:" xmlns:CR="urn:ietf:params:xml:ns:carddav"><D:prop><D:getetag/>'
            '<CR:address-data/></D:prop>%s</CR:addressbook-multiget>' % "".join("<D:href>%s</D:href>" % h for h in hrefs))


def query_body(kind):
    if kind == "cal":
        return ('<?xml version="1.0"?><C:calendar-query xmlns:D="DAV:" xmlns:C="urn:ietf:params:xml:ns:caldav"><D:prop><D:getetag/><C:calendar-data/></D:prop>'
                '<C:filter><C:comp-filter name="VCALENDAR"/></C:filter></C:calendar-query>')
    return ('<?xml version="1.0"?><CR:addressbook-query xmlns:D="DAV:" xmlns:CR="urn:ietf:params:xml:ns:carddav"><D:prop><D:getetag/><CR:address-data/></D:prop>'
            '</CR:addressbook-query>')


def report_data(srv, coll, kind, body, **headers):
    st, h, b = srv.request("REPORT", coll, data=body, **headers)
    out = {}
    if st != 207:
        return st, out
    ms = impl.parse_multistatus(b)
    tag = "C:calendar-data" if kind == "cal" else "CR:address-data"
    for href, props in ms.items():
        if isinstance(props, dict) and tag in props and props[tag][0] == 200:
            out[href] = (props[tag][1].text or "", props.get("D:getetag", (0, None))[1].text if "D:getetag" in props else None)
    return st, out


def xml_eol(text):
    """What an XML parser makes of the line ends of element content (XML 1.0 2.11)."""
    return text.replace("\r\n", "\n").replace("\r", "\n")


def ws_only_continuation(stored):
    """A stored physical continuation line made of white space only (known class C14:fold-ws)."""
    return any(l != "" and l[0] in " \t" and l.strip() == "" for l in stored.split("\r\n"))


def tzids_of_tree(t):
    return [v for s in t[2] if s[0] == "VTIMEZONE" for _, n, _, v in s[1] if n == "TZID"]


def main_uid(t):
    for s in t[2]:
        if s[0] in ("VEVENT", "VTODO", "VJOURNAL"):
            for _, n, _, v in s[1]:
                if n == "UID":
                    return v
    for _, n, _, v in t[1]:
        if n == "UID":
            return v
    return None


def new_server():
    srv = impl.Server(conf={"auth": {"type": "none"}, "rights": {"type": "authenticated"}})
    srv.mkcol("/u/")
    return srv


def run_server_part(ctx, HEADER, corr):
    rng = ctx.rng
    g = X.Gen(rng)
    srv = new_server()
    try:
        _objects(ctx, srv, g, HEADER, corr)
        _whole_collections(ctx, srv, g, HEADER, corr)
        _known_deviations(ctx, srv, g)
    finally:
        srv.close()
    _encodings(ctx, g)
    _generated_uids(ctx, g)
    _read_faults(ctx, g)
    for k, v in g.features.items():
        ctx.count("grammar:" + k, v)


# ---------------------------------------------------------------------------------------------------------------
def _objects(ctx, srv, g, HEADER, corr):
    """Single objects: PUT, GET, REPORT, export, re-upload."""
    rng = ctx.rng
    n_coll = ctx.n(4, 16)
    per = ctx.n(36, 100)
    first = {}

    def fail(kind, what, replay):
        if kind not in first:
            first[kind] = True
            ctx.violation(what, replay)

    export_cases = []
    # regression corpus: one object per documented clean-up, through the real server
    from checks.C14 import CLEANUP_CORPUS
    srv.mkcalendar("/u/corpus/")
    srv.mkaddressbook("/u/corpusab/")
    for i, text in enumerate(CLEANUP_CORPUS):
        path = ("/u/corpusab/c%d.vcf" if "BEGIN:VCARD" in text else "/u/corpus/c%d.ics") % i
        st, h, _ = srv.put(path, text)
        ctx.case(("corpus", text), nontrivial=True)
        if st != 201:
            fail("corpus", "clean-up corpus object %d refused with %s" % (i, st), dict(path=path, upload=text))
            continue
        got = srv.request("GET", path)[2].decode("utf-8")
        exp, act = X.expected_facts(text), X.facts(got)
        if exp != act:
            fail("corpus-facts", "documented clean-up not applied as documented: %s" % json_short(X.diff_facts(exp, act)),
                 dict(step="PUT then GET", path=path, upload=text, served=got))
        st3, h3, _ = srv.put(path, got)
        if st3 != 201 or srv.request("GET", path)[2].decode("utf-8") != got or h3.get("ETag") != h.get("ETag"):
            fail("corpus-fixed", "cleaned object is not a fixed point of re-upload", dict(path=path, upload=text, served=got))
    for ci in range(n_coll):
        kind = "card" if ci % 4 == 3 else "cal"
        coll = "/u/%s%d/" % (kind, ci)
        (srv.mkaddressbook if kind == "card" else srv.mkcalendar)(coll)
        dn = rng.choice([None, "Work", g.text(3, allow_nl=False) or "x", "Ünï, côde; name"])
        if dn and kind == "cal":
            srv.request("PROPPATCH", coll, data='<?xml version="1.0"?><D:propertyupdate xmlns:D="DAV:" xmlns:C="urn:ietf:params:xml:ns:caldav"><D:set><D:prop>'
                        '<D:displayname>%s</D:displayname>%s</D:prop></D:set></D:propertyupdate>' % (
                            dn.replace("&", "&amp;").replace("<", "&lt;"),
                            "<C:calendar-description>%s</C:calendar-description>" % (g.text(4) or "d").replace("&", "&amp;").replace("<", "&lt;") if rng.random() < 0.5 else ""))
        stored = {}      # href -> (upload text, get text, etag, tree)
        shared_tz = g.tzid()
        for i in range(per):
            uid = "c%d-o%d-%s" % (ci, i, g.ident(4))
            tree = g.card_object(uid) if kind == "card" else g.cal_object(uid, tz=(shared_tz if rng.random() < 0.5 else None))
            style = dict(eol=rng.choice(["\r\n", "\r\n", "\n"]), fold=rng.choice(["none", "75", "safe-random", "tab", "short"]),
                         lower=rng.random() < 0.1, quote_all=rng.random() < 0.1)
            if rng.random() < 0.15:
                # plant one of the documented clean-up situations (zero DURATION, EXDATE/RDATE type, PHOTO data URI)
                if kind == "cal":
                    from checks.C14 import add_cleanup_case
                    tree = add_cleanup_case(rng, tree, g)
                elif style["fold"] in ("none", "75", "tab") and not style["lower"] and not style["quote_all"]:
                    # the PHOTO clean-up is a regex on the physical line: it is documented for `PHOTO;ENCODING=b...:data:` on one line
                    tree = (tree[0], [l for l in tree[1] if l[1] != "PHOTO"] + [
                        (None, "PHOTO", (("ENCODING", ("b",)), ("TYPE", ("JPEG",))), "data:image/jpeg;base64,QUJDREVGRw==")], tree[2])
                    g.features["cleanup:photo-data-uri"] += 1
            text = g.render(tree, style=style)
            if rng.random() < 0.06:
                k = rng.randrange(len(text))
                # the two text clean-ups are applied in the order PHOTO prefix, then control characters: a control character
                # inside the header of a PHOTO data-URI line disables the PHOTO clean-up (two malformations at once, outside the
                # documented cases): keep the planted control character out of that line
                a, b = text.rfind("\n", 0, k) + 1, text.find("\n", k)
                if "data:" not in text[a:(b if b >= 0 else len(text))] or not text[a:].upper().startswith("PHOTO"):
                    text = text[:k] + rng.choice(["\x01", "\x0b", "\x1f"]) + text[k:]
                    g.features["cleanup:control-char"] += 1
            path = coll + "o%d.%s" % (i, "vcf" if kind == "card" else "ics")
            st, h, _ = srv.put(path, text)
            ctx.count("put:%d" % st)
            nontriv = ("\\" in text or any(ord(c) > 127 for c in text) or '"' in text or "\n " in text or "\n\t" in text)
            ctx.case(("object", text), nontrivial=nontriv, sample=dict(upload=text[:300]) if i == 0 and ci < 2 else None)
            if st != 201:
                # a refused object is outside the property; the main grammar must be accepted, so count it
                ctx.count("refused-main-grammar")
                ctx.extra.setdefault("refused_samples", []).append(text[:300]) if len(ctx.extra.get("refused_samples", [])) < 3 else None
                continue
            st2, h2, b2 = srv.request("GET", path)
            got = b2.decode("utf-8")
            replay = dict(step="PUT then GET", path=path, upload=text, served=got)
            # 1. same components / properties / parameters / values modulo the documented clean-ups
            try:
                exp, act = X.expected_facts(text), X.facts(got)
            except X.IParseError as e:
                fail("parse", "served object does not parse: %s" % e, replay)
                continue
            d = X.diff_facts(exp, act)
            if d["n_missing"] or d["n_extra"]:
                fail("facts", "GET returns other content than was stored: %s" % json_short(d), dict(replay, diff=d))
            if h2.get("ETag") != h.get("ETag"):
                fail("etag", "ETag of GET differs from ETag of PUT", replay)
            stored[path] = (text, got, h.get("ETag"), tree)
            # 2. fixed point: re-upload of what was served
            if rng.random() < 0.5:
                st3, h3, _ = srv.put(path, got)
                got3 = srv.request("GET", path)[2].decode("utf-8")
                if st3 != 201 or got3 != got or h3.get("ETag") != h.get("ETag"):
                    if ws_only_continuation(got):
                        ctx.violation("re-upload of the served text is not a fixed point (white-space-only continuation line)",
                                      dict(replay, status=st3, second=got3), signature="C14:fold-ws")
                        if st3 == 201:      # the stored object changed: later REPORT / export are compared with the new state
                            stored[path] = (got, got3, h3.get("ETag"), tree)
                    else:
                        fail("fixed", "re-uploading the served text gives status %s / different bytes or ETag" % st3, dict(replay, status=st3, second=got3))
        ctx.count("objects-stored", len(stored))
        # 3. REPORT multiget and query serve the same text (modulo XML line ends)
        ck = "cal" if kind == "cal" else "card"
        for body, label in ((multiget_body(ck, list(stored)), "multiget"), (query_body(ck), "query")):
            st, data = report_data(srv, coll, ck, body)
            if st != 207 or set(data) != set(stored):
                fail("report", "REPORT %s on %s: status %s, %d of %d objects" % (label, coll, st, len(data), len(stored)), dict(coll=coll, report=label))
                continue
            for href, (txt, etag) in data.items():
                if txt != xml_eol(stored[href][1]) or etag != stored[href][2]:
                    fail("report", "REPORT %s serves other text/ETag than GET for %s" % (label, href),
                         dict(href=href, upload=stored[href][0], get=stored[href][1], report=txt))
                    break
        # 4. export: all components of all objects, each VTIMEZONE once
        st, h, b = srv.request("GET", coll)
        exported = b.decode("utf-8")
        check_export(ctx, fail, coll, kind, [s[1] for s in stored.values()], exported)
        # 5. export correspondence (model of BaseCollection.serialize on the real item texts, real order)
        if kind == "cal":
            with srv.application._storage.acquire_lock("r"):
                c = next(iter(srv.application._storage.discover(coll)))
                texts = [it.serialize() for it in c.get_all()]
                real = c.serialize()
                dn_, desc_ = c.get_meta("D:displayname"), c.get_meta("C:calendar-description")
            template = export_template(dn_, desc_)
            if real_export(texts, dn_, desc_) != real:
                ctx.obligation("correspondence:export:stub-equals-collection", False, "BaseCollection.serialize on the stub differs from the stored collection")
            for k in sorted(set((min(45, len(texts)), min(6, len(texts)), min(2, len(texts))))):
                export_cases.append(((template, texts[:k]), real_export(texts[:k], dn_, desc_)))
    # regression corpus: two objects whose long TZIDs differ only after the fold point of the TZID line
    coll = "/u/regtz/"
    srv.mkcalendar(coll)
    reg = []
    for i, tzid in enumerate(["/example.org/" + "L" * 62 + "/One", "/example.org/" + "L" * 62 + "/Two"]):
        t = ("BEGIN:VCALENDAR\r\nVERSION:2.0\r\nPRODID:-//x//EN\r\nBEGIN:VTIMEZONE\r\nTZID:%s\r\nBEGIN:STANDARD\r\nDTSTART:19701025T030000\r\n"
             "TZOFFSETFROM:+0200\r\nTZOFFSETTO:+0100\r\nEND:STANDARD\r\nEND:VTIMEZONE\r\nBEGIN:VEVENT\r\nUID:reg%d\r\nDTSTAMP:20200101T000000Z\r\n"
             "DTSTART;TZID=%s:20200102T100000\r\nSUMMARY:r\r\nEND:VEVENT\r\nEND:VCALENDAR\r\n" % (tzid, i, tzid))
        if srv.put(coll + "r%d.ics" % i, t)[0] == 201:
            reg.append(srv.request("GET", coll + "r%d.ics" % i)[2].decode("utf-8"))
    check_export(ctx, fail, coll, "cal", reg, srv.request("GET", coll)[2].decode("utf-8"))
    export_cases.append(((export_template(None, None), reg), real_export(reg)))
    corr(ctx, "export", "(fun ti => export (fst ti) (snd ti))", export_cases,
         lambda ti: "(%s, %s)" % (enc_str(ti[0]), enc_list(enc_str)(ti[1])), enc_str, "eqs",
         key=lambda ti: hash((ti[0], tuple(ti[1]))), nontrivial=lambda i, o: "BEGIN:VTIMEZONE" in o)


def json_short(d):
    return ("missing %s extra %s" % (d["missing"][:2], d["extra"][:2]))[:600]


def export_template(displayname, description):
    """The template BaseCollection.serialize builds (vobject.iCalendar with X-WR-CALNAME / X-WR-CALDESC)."""
    import vobject
    t = vobject.iCalendar()
    if displayname:
        t.add("X-WR-CALNAME")
        t.x_wr_calname.value_param = "TEXT"
        t.x_wr_calname.value = displayname
    if description:
        t.add("X-WR-CALDESC")
        t.x_wr_caldesc.value_param = "TEXT"
        t.x_wr_caldesc.value = description
    return t.serialize()


class _FakeCollection:
    """BaseCollection.serialize run on given item texts (no storage): the real method, a stub for get_all/get_meta."""

    def __init__(self, texts, meta):
        self._texts, self._meta = texts, meta
        self.tag = "VCALENDAR"

    def get_all(self):
        class _I:
            def __init__(self, t):
                self.t = t

            def serialize(self):
                return self.t
        return [_I(t) for t in self._texts]

    def get_meta(self, key=None):
        return self._meta.get(key)


def real_export(texts, displayname=None, description=None):
    from radicale import storage
    fake = _FakeCollection(texts, {"D:displayname": displayname, "C:calendar-description": description})
    return storage.BaseCollection.serialize(fake)


def check_export(ctx, fail, coll, kind, item_texts, exported):
    try:
        tops = X.parse_tree(exported)
    except X.IParseError as e:
        fail("export", "export of %s does not parse: %s" % (coll, e), dict(coll=coll, exported=exported[:3000]))
        return
    if kind == "card":
        exp = collections.Counter()
        for t in item_texts:
            exp += X.facts(t)
        act = X.facts(exported)
        if exp != act:
            fail("export", "address-book export differs from the union of its cards: %s" % json_short(X.diff_facts(exp, act)), dict(coll=coll))
        return
    if not item_texts:
        return
    if len(tops) != 1 or tops[0][0] != "VCALENDAR":
        fail("export", "calendar export is not one VCALENDAR", dict(coll=coll, exported=exported[:2000]))
        return
    exp_main, exp_tz = collections.Counter(), {}
    for t in item_texts:
        for top in X.parse_tree(t):
            for s in top[2]:
                if s[0] == "VTIMEZONE":
                    tz = [v for _, n, _, v in s[1] if n == "TZID"]
                    exp_tz.setdefault(tz[0] if tz else None, X.facts_tree(s, (), collections.Counter()))
                else:
                    X.facts_tree(s, (), exp_main)
    act_main, act_tz = collections.Counter(), collections.Counter()
    for s in tops[0][2]:
        if s[0] == "VTIMEZONE":
            tz = [v for _, n, _, v in s[1] if n == "TZID"]
            act_tz[tz[0] if tz else None] += 1
            if (tz[0] if tz else None) in exp_tz and X.facts_tree(s, (), collections.Counter()) != exp_tz[tz[0] if tz else None]:
                # two objects may define the same TZID differently; the export keeps the first: not a violation by the property text
                ctx.count("export:tzid-defined-differently")
        else:
            X.facts_tree(s, (), act_main)
    if exp_main != act_main:
        fail("export", "calendar export loses or alters components: %s" % json_short(X.diff_facts(exp_main, act_main)),
             dict(coll=coll, items=item_texts[:4], exported=exported[:4000]))
    if set(act_tz) != set(exp_tz) or any(v != 1 for v in act_tz.values()):
        missing = sorted(str(x) for x in set(exp_tz) - set(act_tz))
        fail("export-tz", "calendar export: VTIMEZONE set wrong (missing %s, counts %s)" % (missing[:3], [v for v in act_tz.values() if v != 1][:3]),
             dict(coll=coll, missing_tzids=missing, items=[t for t in item_texts if any(m in "".join(X.unfold(t)) for m in missing)][:3] if missing else [],
                  exported=exported[:3000]))


# ---------------------------------------------------------------------------------------------------------------
SHARED_TZID = "C14/Shared-Zone"      # defined anew, with other rules, by every whole calendar that uses it


def two_zone_object(g, rng, uid, tzs):
    """One recurring object whose master and overrides refer to DIFFERENT time zones (the second one is SHARED_TZID,
    which earlier uploads of the same process defined with other rules)."""
    kind = rng.choice(["VEVENT", "VEVENT", "VJOURNAL"])
    tz_a = g.tzid()
    tzs.setdefault(tz_a, g.vtimezone(tz_a))
    tzs.setdefault(SHARED_TZID, g.vtimezone(SHARED_TZID))
    master, (sd, st) = g.main_component(kind, uid, "tz", tz_a)
    if not any(n == "RRULE" for _, n, _, _ in master[1]):
        master = (master[0], master[1] + [(None, "RRULE", (), "FREQ=DAILY;COUNT=9")], master[2])
    comps = [master]
    for _ in range(rng.choice([1, 1, 2])):
        ov, _ = g.main_component(kind, uid, "tz", SHARED_TZID, override_of=(g.date(), st))
        comps.append(ov)
    g.features["whole:two-zone-object"] += 1
    return comps


def build_whole_calendar(g, rng, n_objects, uids=None, two_zone=0):
    """A whole calendar as a client exports it: VCALENDAR(props, VTIMEZONE*, components of several UIDs)."""
    tzs, comps = collections.OrderedDict(), []
    shared = g.tzid()
    for i in range(n_objects):
        uid = uids[i] if uids else "w-%s-%d" % (g.ident(5), i)
        t = g.cal_object(uid, tz=(shared if rng.random() < 0.6 else None))
        for s in t[2]:
            if s[0] == "VTIMEZONE":
                tz = [v for _, n, _, v in s[1] if n == "TZID"][0]
                tzs.setdefault(tz, s)
            else:
                comps.append(s)
    for i in range(two_zone):
        comps += two_zone_object(g, rng, "w2-%s-%d" % (g.ident(5), i), tzs)
    rng.shuffle(comps)
    props = [(None, "VERSION", (), "2.0"), (None, "PRODID", (), "-//verif//whole//EN")]
    if rng.random() < 0.5:
        props.append((None, "X-WR-CALNAME", (), g.esc(g.text(2, allow_nl=False) or "cal")))
    zones = list(tzs.values())
    rng.shuffle(zones)
    return ("VCALENDAR", props, zones + comps), tzs


# UIDs of one upload that map to the same file name unless the storage looks at what it has just written:
# `u` is stored as u + suffix, and so would `u + suffix` itself
def colliding_uids(g, rng, suffix):
    u = "col-" + g.ident(5)
    return rng.choice([[u, u + suffix], [u + suffix, u], [u, u + suffix.upper()], [u.upper() + suffix.upper(), u.upper(), u.upper() + suffix]])


def _whole_collections(ctx, srv, g, HEADER, corr):
    rng = ctx.rng
    first = {}

    def fail(kind, what, replay):
        if kind not in first:
            first[kind] = True
            ctx.violation(what, replay)

    import vobject
    from radicale import item as ritem
    from radicale.app import put as rput
    split_cases = []
    n_whole = ctx.n(12, 100)
    for wi in range(n_whole):
        if wi % 6 == 1:
            # UIDs that collide as file names
            uids = colliding_uids(g, rng, ".ics") + ["w-%s" % g.ident(5)]
            rng.shuffle(uids)
            g.features["whole:colliding-uids"] += 1
            tree, tzs = build_whole_calendar(g, rng, len(uids), uids=uids)
        else:
            # the first calendars always carry an object with two zones; SHARED_TZID is redefined every time
            tree, tzs = build_whole_calendar(g, rng, rng.choice([1, 2, 3, 5, 8]), two_zone=(1 if wi < 4 or rng.random() < 0.4 else 0))
        text = g.render(tree, style=dict(eol="\r\n", fold=rng.choice(["none", "75", "tab"]), lower=False, quote_all=False))
        coll = "/u/whole%d/" % wi
        st, h, _ = srv.put(coll, text, CONTENT_TYPE="text/calendar")
        ctx.count("put-whole:%d" % st)
        ctx.case(("whole", text), nontrivial=True)
        if st != 201:
            ctx.count("refused-main-grammar")
            continue
        exported = srv.request("GET", coll)[2].decode("utf-8")
        replay = dict(step="PUT whole calendar then GET it", path=coll, upload=text, exported=exported)
        try:
            top, = X.parse_tree(exported)
        except Exception as e:
            fail("whole-parse", "export of an uploaded calendar does not parse: %s" % e, replay)
            continue
        # (a) the main components, grouped by UID, are preserved
        exp, act = collections.defaultdict(collections.Counter), collections.defaultdict(collections.Counter)
        for s in tree[2]:
            if s[0] != "VTIMEZONE":
                X.facts_tree(X.clean_tree(s), (), exp[main_uid(("x", [], [s]))])
        for s in top[2]:
            if s[0] != "VTIMEZONE":
                X.facts_tree(s, (), act[main_uid(("x", [], [s]))])
        if exp != act:
            bad = [u for u in set(exp) | set(act) if exp.get(u) != act.get(u)]
            fail("whole-comps", "whole-calendar upload then download changes the objects of UID %s: %s" % (
                bad[:2], json_short(X.diff_facts(exp.get(bad[0], collections.Counter()), act.get(bad[0], collections.Counter())))), replay)
        # (b) every referenced VTIMEZONE once, with the uploaded definition
        used = set()
        for s in tree[2]:
            if s[0] != "VTIMEZONE":
                used |= tz_refs(s)
        got_tz = collections.defaultdict(list)
        for s in top[2]:
            if s[0] == "VTIMEZONE":
                got_tz[[v for _, n, _, v in s[1] if n == "TZID"][0]].append(s)
        if set(got_tz) != used or any(len(v) != 1 for v in got_tz.values()):
            fail("whole-tzset", "whole-calendar round trip: VTIMEZONEs %s, expected each of %s once" % (
                {k: len(v) for k, v in got_tz.items()}, sorted(used)), replay)
        else:
            for tz, (s,) in got_tz.items():
                a, b = X.facts_tree(tzs[tz], (), collections.Counter()), X.facts_tree(s, (), collections.Counter())
                if a != b:
                    fail("whole-tzdef", "whole-calendar upload replaces the uploaded VTIMEZONE %r by another definition: %s" % (
                        tz, json_short(X.diff_facts(a, b))), dict(replay, tzid=tz))
                    break
        # (c) one stored object per UID
        st, ms = srv.propfind(coll, depth="1")
        n_items = len([hname for hname in ms if hname.rstrip("/") != coll.rstrip("/")])
        if n_items != len(exp):
            fail("whole-count", "whole-calendar upload: %d stored objects for %d UIDs" % (n_items, len(exp)), replay)
        # (d) re-importing the export is a fixed point
        if rng.random() < 0.5:
            coll2 = "/u/whole%db/" % wi
            st2, _, _ = srv.put(coll2, exported, CONTENT_TYPE="text/calendar")
            exported2 = srv.request("GET", coll2)[2].decode("utf-8")
            if (st2 != 201 or X.facts(exported2) != X.facts(exported)) and ws_only_continuation(exported):
                ctx.violation("re-upload of an exported calendar is not a fixed point (white-space-only continuation line)",
                              dict(replay, status=st2, second=exported2), signature="C14:fold-ws")
            elif st2 != 201 or X.facts(exported2) != X.facts(exported):
                fail("whole-fixed", "re-uploading an exported calendar gives status %s / other content" % st2, dict(replay, second=exported2))
        # (e) split correspondence: the real prepare() against Model/Split.v
        split_cases.append(split_case(ritem, rput, tree, rng))
    corr(ctx, "split", "split_ids", [c for c in split_cases if c is not None],
         enc_upload, enc_list(lambda ucz: "(%s, ((%s : list N), (%s : list N)))" % (enc_str(ucz[0]), enc_list(enc_N)(ucz[1]), enc_list(enc_N)(ucz[2]))), "eq_groups",
         key=repr, nontrivial=lambda i, o: len(o) > 1)

    # address books: concatenated cards
    for wi in range(ctx.n(4, 30)):
        uids = ["wc-%s-%d" % (g.ident(4), i) for i in range(rng.choice([1, 2, 5]))]
        if wi % 2 == 0:
            uids += colliding_uids(g, rng, ".vcf")
            rng.shuffle(uids) if wi % 4 == 0 else None
            g.features["whole:colliding-uids"] += 1
        cards = [g.card_object(u) for u in uids]
        text = "".join(g.render(c, style=dict(eol="\r\n", fold=rng.choice(["none", "75"]), lower=False, quote_all=False)) for c in cards)
        coll = "/u/wab%d/" % wi
        st, h, _ = srv.put(coll, text, CONTENT_TYPE="text/vcard")
        ctx.count("put-whole-ab:%d" % st)
        ctx.case(("whole-ab", text), nontrivial=True)
        if st != 201:
            ctx.count("refused-main-grammar")
            continue
        exported = srv.request("GET", coll)[2].decode("utf-8")
        got_uids = sorted(X.unescape_text(v) for t in X.parse_tree(exported) for _, n_, _, v in t[1] if n_ == "UID")
        if got_uids != sorted(uids):
            fail("whole-ab-set", "address-book upload then download: %d cards uploaded, UIDs %s come back" % (len(uids), got_uids),
                 dict(step="PUT whole address book then GET it", path=coll, upload=text, exported=exported, uploaded_uids=uids))
        if X.expected_facts(text) != X.facts(exported):
            fail("whole-ab", "address-book upload then download changes the cards: %s" % json_short(X.diff_facts(X.expected_facts(text), X.facts(exported))),
                 dict(step="PUT whole address book then GET it", path=coll, upload=text, exported=exported))


def tz_refs(t):
    out = set()
    for _, n, params, v in t[1]:
        for k, vs in params:
            if k == "TZID":
                out |= set(vs)
    for s in t[2]:
        out |= tz_refs(s)
    return out


def split_case(ritem, rput, tree, rng):
    """Real prepare() on a marked copy of the whole calendar; returns (abstract upload, [(uid, comp ids, tz ids)])."""
    name, props, subs = tree
    marked, tzs, comps = [], [], []
    for i, s in enumerate(subs):
        s2 = (s[0], list(s[1]) + [(None, "X-C14-IDX", (), str(i + 1))], s[2])
        marked.append(s2)
        if s[0] == "VTIMEZONE":
            tzs.append((i + 1, [v for _, n, _, v in s[1] if n == "TZID"][0]))
        else:
            comps.append((i + 1, s[0], main_uid(("x", [], [s])), sorted(tz_refs(s))))
    text = X.tree_text((name, props, marked))
    try:
        items = ritem.read_components(text)
        prepared, tag, whole, _, exc = rput.prepare(items, "/u/x/", "text/calendar", True, False)
        if exc or not whole:
            return None
        out = []
        for it in prepared:
            v = it.vobject_item
            cids = [int(c.x_c14_idx.value) for key in ("vevent", "vtodo", "vjournal") for c in v.contents.get(key, [])]
            zids = [int(z.x_c14_idx.value) for z in v.contents.get("vtimezone", []) if hasattr(z, "x_c14_idx")]
            generated = [z for z in v.contents.get("vtimezone", []) if not hasattr(z, "x_c14_idx")]
            out.append((it.uid, cids, zids + ([0] * len(generated))))
    except Exception:
        return None
    return ((tzs, comps), out)


def enc_upload(u):
    tzs, comps = u
    kind = {"VEVENT": "KEvent", "VTODO": "KTodo", "VJOURNAL": "KJournal"}
    return "(mkUpload %s %s)" % (
        enc_list(lambda z: "(mkTz (Some %s) (idblock %d))" % (enc_str(z[1]), z[0]))(tzs),
        enc_list(lambda c: "(mkComp %s %s %s (idblock %d))" % (kind.get(c[1], "KOther"), enc_str(c[2]), enc_list(enc_str)(c[3]), c[0]))(comps))


# ---------------------------------------------------------------------------------------------------------------
KNOWN = {
    "C14:fold-ws": "a stored line whose continuation line consists of white space only is not a fixed point of re-upload (vobject getLogicalLines(allowQP=True) takes the line for a blank line)",
    "C14:text-comma": "a property handled by vobject's default TEXT codec loses everything after an unescaped comma and gets ';' escaped (URI / multi-valued / structured values: X-APPLE-STRUCTURED-LOCATION geo:lat,lon, vCard NICKNAME, URL, vCard-4 PHOTO data: URI)",
    "C14:empty-param": "a parameter with an empty value (CN=\"\") is written as CN= and dropped on the next upload; an unquoted empty value is dropped at once",
}


def _known_deviations(ctx, srv, g):
    """Inputs of the three classes in which vobject is known to alter objects; each hit is reported with its signature
    (KNOWN-FINDING when listed in known_findings.json).  Everything else about these objects must still hold."""
    rng = ctx.rng
    srv.mkcalendar("/u/known/")
    srv.mkaddressbook("/u/knownab/")

    def ev(body):
        return ("BEGIN:VCALENDAR\r\nVERSION:2.0\r\nPRODID:-//x//EN\r\nBEGIN:VEVENT\r\nUID:k\r\nDTSTAMP:20200101T000000Z\r\nDTSTART:20200102T100000Z\r\n"
                + body + "END:VEVENT\r\nEND:VCALENDAR\r\n")

    def vc(body, ver="3.0"):
        return "BEGIN:VCARD\r\nVERSION:%s\r\nUID:k\r\nFN:K\r\nN:K;;;;\r\n%sEND:VCARD\r\n" % (ver, body)
    probes = [
        ("C14:text-comma", "/u/known/k.ics", ev("X-APPLE-STRUCTURED-LOCATION;VALUE=URI;X-TITLE=Park:geo:37.331684,-122.030758\r\n")),
        ("C14:text-comma", "/u/knownab/k.vcf", vc("NICKNAME:Jim,Jimmie\r\n")),
        ("C14:text-comma", "/u/knownab/k.vcf", vc("URL:http://example.org/a;b,c\r\n")),
        ("C14:text-comma", "/u/knownab/k.vcf", vc("PHOTO:data:image/jpeg;base64,QUJDRA==\r\n", "4.0")),
        ("C14:empty-param", "/u/known/k.ics", ev("ATTENDEE;CN=\"\";ROLE=CHAIR:mailto:a@example.org\r\n")),
        ("C14:fold-ws", "/u/known/k.ics", ev("SUMMARY:" + "x" * 67 + " \r\n")),
        ("C14:fold-ws", "/u/known/k.ics", ev("DESCRIPTION:" + "y" * 63 + " " * 74 + "tail\r\n")),
    ]
    for sig, path, text in probes:
        st, h, _ = srv.put(path, text)
        ctx.case(("known", text), nontrivial=True)
        if st != 201:
            ctx.count("known-probe-refused")
            continue
        got = srv.request("GET", path)[2].decode("utf-8")
        exp, act = X.expected_facts(text), X.facts(got)
        st3, h3, _ = srv.put(path, got)
        got3 = srv.request("GET", path)[2].decode("utf-8") if st3 == 201 else None
        changed = exp != act
        unstable = st3 != 201 or got3 != got or h3.get("ETag") != h.get("ETag")
        ctx.count("known-probe:%s:%s" % (sig, "hit" if (changed or unstable) else "clean"))
        if changed or unstable:
            ctx.violation(KNOWN[sig], dict(path=path, upload=text, served=got, reupload_status=st3, second=got3,
                                           diff=X.diff_facts(exp, act)), signature=sig)


# ---------------------------------------------------------------------------------------------------------------
# the configuration dimension: [encoding] stock / request
# ---------------------------------------------------------------------------------------------------------------
def encodable(text, charset):
    try:
        text.encode(charset)
        return True
    except UnicodeError:
        return False


def restrict_to(text, charsets):
    """The same object with every non-ASCII character that one of the charsets cannot hold replaced (structure untouched)."""
    return "".join(c if ord(c) < 128 or all(encodable(c, cs) for cs in charsets) else "e" for c in text)


def purge_item_cache(folder):
    import os
    import shutil
    n = 0
    for root, dirs, _ in os.walk(folder):
        for d in list(dirs):
            if d == ".Radicale.cache":
                shutil.rmtree(os.path.join(root, d))
                dirs.remove(d)
                n += 1
    return n


def _encodings(ctx, g):
    """Round trip under every configured storage / response charset, with cold-cache re-reads: what comes back must be
    what the stored BYTES hold, not what the upload left in the cache."""
    rng = ctx.rng
    first = {}

    def fail(kind, what, replay):
        if kind not in first:
            first[kind] = True
            ctx.violation(what, replay)

    configs = [("utf-8", "utf-8"), ("iso-8859-15", "utf-8"), ("cp1252", "utf-8"), ("utf-16", "utf-8"),
               ("utf-8", "iso-8859-15"), ("iso-8859-15", "iso-8859-15")]
    if not ctx.quick:
        configs += [("latin-1", "utf-8"), ("utf-16-le", "utf-8"), ("utf-32", "utf-8"), ("koi8-r", "utf-8"), ("cp437", "utf-8"),
                    ("cp1252", "iso-8859-15"), ("utf-8", "cp1252"), ("shift_jis", "utf-8"), ("utf-8", "utf-16")]
    n_obj = ctx.n(5, 24)
    for stock, request in configs:
        conf = {"auth": {"type": "none"}, "rights": {"type": "authenticated"}, "encoding": {"stock": stock, "request": request}}
        srv = impl.Server(conf=conf)
        try:
            xml_utf8 = dict(CONTENT_TYPE="text/xml; charset=utf-8")     # the harness declares the charset of its XML bodies
            srv.mkcol("/u/")
            srv.mkcalendar("/u/c/")
            srv.mkaddressbook("/u/a/", **xml_utf8)
            stored = {}
            unservable = set()      # collections holding an object the response charset cannot express
            for i in range(n_obj):
                card = i % 4 == 3
                uid = "enc-%s-%d" % (g.ident(4), i)
                tree = g.card_object(uid) if card else g.cal_object(uid)
                full = g.render(tree, style=dict(eol="\r\n", fold=rng.choice(["none", "75"]), lower=False, quote_all=False))
                full = full.replace("DESCRIPTION:", "DESCRIPTION:caf\u00e9 \u20ac Z\u00fcrich ", 1) if "DESCRIPTION:" in full else full.replace("\r\nUID:", "\r\nX-ENC:caf\u00e9 \u20ac \u65e5\u672c\r\nUID:", 1)
                for variant in ("inside", "outside"):
                    text = restrict_to(full, [stock, request]) if variant == "inside" else full
                    if variant == "outside":
                        if encodable(text, stock) and encodable(text, request):
                            continue
                        text = text.replace(uid, "x" + uid)       # its own UID: not a conflict with the inside variant
                    path = ("/u/a/%s%d.vcf" if card else "/u/c/%s%d.ics") % (variant[0], i)
                    via_request_charset = variant == "inside" and rng.random() < 0.5
                    if via_request_charset:
                        st, h, _ = srv.request("PUT", path, data=text.encode(request), CONTENT_TYPE="text/vcard" if card else "text/calendar")
                    else:
                        st, h, _ = srv.request("PUT", path, data=text.encode("utf-8"),
                                               CONTENT_TYPE=("text/vcard" if card else "text/calendar") + "; charset=utf-8")
                    ctx.case(("encoding", stock, request, text), nontrivial=any(ord(c) > 127 for c in text))
                    ctx.count("encoding:%s/%s:%s:put-%d" % (stock, request, variant, st))
                    replay = dict(step="PUT, GET, purge .Radicale.cache, GET, fresh Application, GET/REPORT/export",
                                  config=conf["encoding"], path=path, upload=text, body_charset=request if via_request_charset else "utf-8")
                    if st != 201:
                        if variant == "inside":
                            fail("enc-refused", "[encoding] stock=%s request=%s: an object whose text the charsets can hold is refused (%s)" % (stock, request, st), replay)
                        continue
                    exp = X.expected_facts(text)

                    def served(server, label, want_bytes=None):
                        st2, h2, b2 = server.request("GET", path)
                        if st2 != 200:
                            if encodable(text, request):
                                fail("enc-get", "[encoding] stock=%s request=%s: %s GET answers %s for a stored object" % (stock, request, label, st2), dict(replay, phase=label))
                            else:
                                ctx.count("encoding:unservable-in-response-charset")
                                unservable.add("/u/a/" if card else "/u/c/")
                            return None
                        try:
                            got = b2.decode(request)
                            act = X.facts(got)
                        except (UnicodeError, X.IParseError) as e:
                            fail("enc-parse", "[encoding] stock=%s request=%s: %s GET body unreadable: %s" % (stock, request, label, e), dict(replay, phase=label))
                            return None
                        if act != exp:
                            fail("enc-facts", "[encoding] stock=%s request=%s: %s GET returns other content than was stored: %s" % (
                                stock, request, label, json_short(X.diff_facts(exp, act))), dict(replay, phase=label, served=got))
                        if h2.get("ETag") != h.get("ETag"):
                            fail("enc-etag", "[encoding] stock=%s request=%s: %s GET has another ETag than the PUT" % (stock, request, label), dict(replay, phase=label, served=got))
                        if want_bytes is not None and b2 != want_bytes:
                            fail("enc-cold", "[encoding] stock=%s request=%s: the text served after the cache is gone differs from the text served before" % (stock, request),
                                 dict(replay, phase=label, served=got))
                        return b2
                    warm = served(srv, "warm")
                    purge_item_cache(srv.folder)
                    cold = served(srv, "cold-cache", warm)
                    if cold is not None:
                        stored[path] = (text, cold.decode(request), card)
                        if rng.random() < 0.5:
                            st3, h3, _ = srv.request("PUT", path, data=cold, CONTENT_TYPE=("text/vcard" if card else "text/calendar") + "; charset=" + request)
                            if (st3 != 201 or h3.get("ETag") != h.get("ETag")) and not ws_only_continuation(cold.decode(request)):
                                fail("enc-fixed", "[encoding] stock=%s request=%s: re-uploading the cold-read text gives %s / another ETag" % (stock, request, st3), replay)
            # collection properties go through the same charset
            dn = restrict_to("Z\u00fcrich caf\u00e9 \u20ac", [stock, request])
            srv.request("PROPPATCH", "/u/c/", data=('<?xml version="1.0" encoding="utf-8"?><D:propertyupdate xmlns:D="DAV:"><D:set><D:prop><D:displayname>%s'
                                                   '</D:displayname></D:prop></D:set></D:propertyupdate>' % dn).encode("utf-8"),
                        CONTENT_TYPE="text/xml; charset=utf-8")
            # a fresh Application on the same folder: nothing but the files
            purge_item_cache(srv.folder)
            srv2 = impl.Server(conf=conf, folder=srv.folder)
            for kind, coll in (("cal", "/u/c/"), ("card", "/u/a/")):
                mine = {p: v for p, v in stored.items() if v[2] == (kind == "card")}
                if not mine:
                    continue
                st, data = report_data(srv2, coll, kind, multiget_body(kind, list(mine)), **xml_utf8)
                if st != 207 or set(data) != set(mine):
                    fail("enc-report", "[encoding] stock=%s request=%s: REPORT on a fresh Application: status %s, %d of %d objects" % (stock, request, st, len(data), len(mine)),
                         dict(config=conf["encoding"], coll=coll))
                else:
                    for href, (txt, _) in data.items():
                        if X.facts(txt) != X.expected_facts(mine[href][0]):
                            fail("enc-report", "[encoding] stock=%s request=%s: REPORT on a fresh Application returns other content for %s: %s" % (
                                stock, request, href, json_short(X.diff_facts(X.expected_facts(mine[href][0]), X.facts(txt)))),
                                dict(config=conf["encoding"], href=href, upload=mine[href][0], report=txt))
                            break
                st, h, b = srv2.request("GET", coll)
                if st == 200:
                    exported = b.decode(request)
                    check_export(ctx, fail, coll, kind, [v[1] for v in mine.values()], exported)
                    if kind == "cal" and ("X-WR-CALNAME;VALUE=TEXT:" + dn) not in X.unfold(exported):
                        fail("enc-props", "[encoding] stock=%s request=%s: the display name %r does not come back from .Radicale.props" % (stock, request, dn),
                             dict(config=conf["encoding"], coll=coll, exported=exported[:1500]))
                elif coll not in unservable:
                    fail("enc-export", "[encoding] stock=%s request=%s: export on a fresh Application answers %s" % (stock, request, st), dict(config=conf["encoding"], coll=coll))
        finally:
            srv.close()


# ---------------------------------------------------------------------------------------------------------------
# every stored item of a collection, one by one: served once, re-read cold, re-uploaded
# ---------------------------------------------------------------------------------------------------------------
def item_hrefs(srv, coll):
    st, ms = srv.propfind(coll, depth="1")
    return sorted(h for h in ms if h.rstrip("/") != coll.rstrip("/")) if st == 207 else None


def sweep_items(ctx, srv, coll, fail, replay0, content_type):
    """For every item of `coll`: GET; exactly one non-empty UID; the same text and ETag once the item cache is gone (what is
    served is what the FILE holds); re-uploading the served text is accepted and gives the same ETag.  Returns {href: text}."""
    hrefs = item_hrefs(srv, coll)
    if hrefs is None:
        fail("sweep-list", "PROPFIND Depth:1 on %s fails" % coll, replay0)
        return {}
    served = {}
    for href in hrefs:
        st, h, b = srv.request("GET", href)
        if st != 200:
            fail("sweep-get", "GET %s of a listed object answers %s" % (href, st), dict(replay0, href=href))
            continue
        text = b.decode("utf-8")
        served[href] = (text, h.get("ETag"))
        try:
            tops = X.parse_tree(text)
        except X.IParseError as e:
            fail("sweep-parse", "stored object %s does not parse: %s" % (href, e), dict(replay0, href=href, served=text))
            continue
        for top in tops:
            for holder in ([top] if top[0] == "VCARD" else [s for s in top[2] if s[0] in ("VEVENT", "VTODO", "VJOURNAL")]):
                uids = [v for _, n, _, v in holder[1] if n == "UID"]
                if len(uids) != 1 or uids[0] == "":
                    fail("sweep-uid", "stored object %s: a %s carries the UID lines %r (exactly one non-empty UID expected)" % (href, holder[0], uids),
                         dict(replay0, href=href, served=text))
    purge_item_cache(srv.folder)
    for href, (text, etag) in served.items():
        st, h, b = srv.request("GET", href)
        if st != 200 or b.decode("utf-8") != text or h.get("ETag") != etag:
            fail("sweep-cold", "object %s once the item cache is gone: status %s, %s" % (href, st, "other text/ETag" if st == 200 else "not served"),
                 dict(replay0, href=href, served=text, cold=b.decode("utf-8", "replace") if st == 200 else None))
    for href, (text, etag) in served.items():
        st, h, _ = srv.request("PUT", href, data=text, CONTENT_TYPE=content_type)
        if st != 201 or h.get("ETag") != etag:
            if ws_only_continuation(text):
                ctx.violation("re-upload of the served text is not a fixed point (white-space-only continuation line)",
                              dict(replay0, href=href, served=text, status=st), signature="C14:fold-ws")
            else:
                fail("sweep-fixed", "the served text of %s, uploaded again, gives status %s%s" % (href, st, "" if st != 201 else " and another ETag"),
                     dict(replay0, href=href, served=text))
    return {h: t for h, (t, _) in served.items()}


def without_uid_facts(c):
    return collections.Counter({k: v for k, v in c.items() if k[1] != "UID"})


def _generated_uids(ctx, g):
    """Whole-collection uploads in which some objects have no UID property or an empty one: the server gives them a UID;
    everything else must come back, every stored object must carry exactly one UID and be a fixed point."""
    rng = ctx.rng
    first = {}

    def fail(kind, what, replay):
        if kind not in first:
            first[kind] = True
            ctx.violation(what, replay)
    srv = new_server()
    try:
        for wi in range(ctx.n(4, 24)):
            card = wi % 2 == 0
            n = rng.choice([2, 3, 5])
            modes = [rng.choice(["keep", "none", "empty"]) for _ in range(n)]
            modes[rng.randrange(n)] = "empty" if wi % 4 < 2 else "none"
            if card:
                trees = []
                for i, m in enumerate(modes):
                    t = g.card_object("gu-%s-%d" % (g.ident(4), i))
                    lines = [l for l in t[1] if l[1] != "UID"] if m != "keep" else list(t[1])
                    if m == "empty":
                        lines.insert(rng.randrange(1, len(lines) + 1), (None, "UID", (), ""))
                    trees.append((t[0], lines, t[2]))
                text = "".join(g.render(t, style=dict(eol="\r\n", fold="75", lower=False, quote_all=False)) for t in trees)
                ctype, coll = "text/vcard", "/u/gab%d/" % wi
            else:
                tree, _ = build_whole_calendar(g, rng, n)
                subs, k = [], 0
                seen_uids = {}
                for s_ in tree[2]:
                    if s_[0] in ("VEVENT", "VTODO", "VJOURNAL"):
                        uid = main_uid(("x", [], [s_]))
                        m = seen_uids.setdefault(uid, modes[k % n])
                        k += 1
                        # only single-component objects lose their UID (an override without UID could not be re-attached)
                        if m != "keep" and sum(1 for y in tree[2] if y[0] == s_[0] and main_uid(("x", [], [y])) == uid) == 1:
                            lines = [l for l in s_[1] if l[1] != "UID"]
                            if m == "empty":
                                lines.append((None, "UID", (), ""))
                            s_ = (s_[0], lines, s_[2])
                    subs.append(s_)
                tree = (tree[0], tree[1], subs)
                text = g.render(tree, style=dict(eol="\r\n", fold="75", lower=False, quote_all=False))
                ctype, coll = "text/calendar", "/u/gcal%d/" % wi
            g.features["whole:objects-without-uid"] += 1
            st, h, _ = srv.put(coll, text, CONTENT_TYPE=ctype)
            ctx.case(("generated-uid", text), nontrivial=True)
            ctx.count("put-whole-nouid:%d" % st)
            replay = dict(step="PUT whole collection with objects lacking a UID, then every stored object: GET, cold GET, PUT again", path=coll, upload=text)
            if st != 201:
                fail("gu-refused", "a whole-collection upload with objects lacking a UID is refused (%s)" % st, replay)
                continue
            items = sweep_items(ctx, srv, coll, fail, replay, ctype)
            exp = collections.Counter()
            n_objects = 0
            for top in X.parse_tree(X.strip_controls(text)):
                if top[0] == "VCARD":
                    X.facts_tree(X.clean_tree(top), (), exp)
                    n_objects += 1
                else:
                    mains = [s_ for s_ in top[2] if s_[0] in ("VEVENT", "VTODO", "VJOURNAL")]
                    n_objects += len(set((main_uid(("x", [], [s_])) or id(s_)) for s_ in mains))
                    for s_ in mains:
                        X.facts_tree(X.clean_tree(s_), (), exp)
            act = collections.Counter()
            for t_ in items.values():
                for top in X.parse_tree(t_):
                    if top[0] == "VCARD":
                        X.facts_tree(top, (), act)
                    else:
                        for s_ in top[2]:
                            if s_[0] in ("VEVENT", "VTODO", "VJOURNAL"):
                                X.facts_tree(s_, (), act)
            if len(items) != n_objects:
                fail("gu-count", "%d objects uploaded, %d stored" % (n_objects, len(items)), replay)
            if without_uid_facts(exp) != without_uid_facts(act):
                fail("gu-facts", "objects of a whole-collection upload come back altered (UIDs aside): %s" % json_short(
                    X.diff_facts(without_uid_facts(exp), without_uid_facts(act))), dict(replay, stored=list(items.values())[:4]))
            kept_exp = sorted(k[3] for k in exp.elements() if k[1] == "UID" and k[3] != ("text", ""))
            kept_act = sorted(k[3] for k in act.elements() if k[1] == "UID")
            if any(u not in kept_act for u in kept_exp):
                fail("gu-kept", "an uploaded UID was replaced: uploaded %s, stored %s" % (kept_exp, kept_act), replay)
    finally:
        srv.close()


# ---------------------------------------------------------------------------------------------------------------
# read faults: the file of an accepted object cannot be opened
# ---------------------------------------------------------------------------------------------------------------
def _read_faults(ctx, g):
    """An accepted object whose file cannot be read (EACCES after a restore, EIO, ...) may make a request FAIL, but must never be
    served as absent: no 404 for its GET, no successful export / REPORT / listing that silently lacks it, no altered text."""
    import errno
    import os
    from radicale.storage.multifilesystem import get as storage_get
    rng = ctx.rng
    first = {}

    def fail(kind, what, replay):
        if kind not in first:
            first[kind] = True
            ctx.violation(what, replay)
    srv = new_server()
    try:
        for kind, coll, ctype in (("cal", "/u/fc/", "text/calendar"), ("card", "/u/fa/", "text/vcard")):
            (srv.mkcalendar if kind == "cal" else srv.mkaddressbook)(coll)
            stored = {}
            for i in range(ctx.n(3, 8)):
                uid = "rf-%s-%d" % (g.ident(4), i)
                tree = g.card_object(uid) if kind == "card" else g.cal_object(uid)
                text = g.render(tree, style=dict(eol="\r\n", fold="75", lower=False, quote_all=False))
                path = coll + "o%d.%s" % (i, "vcf" if kind == "card" else "ics")
                if srv.put(path, text)[0] == 201:
                    st, h, b = srv.request("GET", path)
                    stored[path] = (b.decode("utf-8"), h.get("ETag"), uid)
            for target in rng.sample(sorted(stored), min(len(stored), ctx.n(2, 4))):
                fpath = os.path.join(srv.folder, "collection-root", *target.strip("/").split("/"))
                for err in (errno.EACCES, errno.EIO):
                    def faulty_open(file, mode="r", *args, _fpath=fpath, _err=err, **kwargs):
                        if os.path.abspath(file) == os.path.abspath(_fpath) and "r" in mode:
                            raise OSError(_err, os.strerror(_err), file)       # PermissionError for EACCES
                        return open(file, mode, *args, **kwargs)
                    storage_get.open = faulty_open
                    try:
                        text, etag, uid = stored[target]
                        replay = dict(step="objects stored; then open() of the file of %s fails with %s; then the request" % (target, errno.errorcode[err]),
                                      coll=coll, target=target, errno=errno.errorcode[err], stored=text)
                        ctx.case(("read-fault", kind, errno.errorcode[err], target), nontrivial=True)
                        st, h, b = srv.request("GET", target)
                        ctx.count("read-fault:%s:GET-item:%d" % (errno.errorcode[err], st))
                        if st == 404 or (st == 200 and b.decode("utf-8") != text):
                            fail("rf-get", "open() of a stored object's file fails with %s: GET answers %s%s" % (
                                errno.errorcode[err], st, " (the object is reported absent)" if st == 404 else " with other content"), dict(replay, request="GET " + target))
                        st, h, b = srv.request("GET", coll)
                        if st == 200 and ("UID:" + uid) not in "".join(l + "\n" for l in X.unfold(b.decode("utf-8"))):
                            fail("rf-export", "open() of a stored object's file fails with %s: the export succeeds without the object" % errno.errorcode[err],
                                 dict(replay, request="GET " + coll))
                        for label, body in (("query", query_body(kind)), ("multiget", multiget_body(kind, [target]))):
                            st, data = report_data(srv, coll, kind, body)
                            if st == 207 and target not in data:
                                fail("rf-report", "open() of a stored object's file fails with %s: REPORT %s succeeds without the object" % (errno.errorcode[err], label),
                                     dict(replay, request="REPORT %s %s" % (label, coll)))
                            elif st == 207 and data[target][0] != xml_eol(text):
                                fail("rf-report", "REPORT %s serves other text under a read fault" % label, dict(replay, request="REPORT " + label))
                        st, ms = srv.propfind(coll, depth="1")
                        if st == 207 and target not in ms:
                            fail("rf-list", "open() of a stored object's file fails with %s: PROPFIND Depth:1 succeeds without the object" % errno.errorcode[err],
                                 dict(replay, request="PROPFIND " + coll))
                    finally:
                        if "open" in vars(storage_get):
                            del storage_get.open
    finally:
        srv.close()
