"""C17 -- The login cache never changes the outcome of a login.

1. proof: Props/C17.v (model: Model/LoginCache.v, the mapping prefix regenerated from /repo: Gen/LoginMapGen.v)
2. regression witnesses of the defects found (F1 sweep rebinds `login`, F2 stale `digest` -> KeyError,
   F12 cached success returns the login instead of the user the back-end returned) run FIRST
3. correspondence (tie K): the real BaseAuth.login with a scripted back-end and a logical clock against the
   model run inside Coq, on seeded histories (attempts / clock advances straddling both limits / credential
   changes) and on an exhaustive enumeration of short histories; observations per attempt = outcome
   (user | "" | raised), "cached" flag, whether the back-end was asked, sizes of both dictionaries; at the
   end the symbolic contents of both dictionaries
4. monitors: the property stated directly on the implementation (sound w.r.t. the back-end's actual answers
   within the lifetimes, transparent, never raises, independent of other logins' attempts)
"""
import itertools
import json

from vlib import core
from vlib import x_C17 as X
from vlib import x_C17c as XC
from vlib.core import enc_Z

S = X.S
T0 = X.T0

NAMES = ["alice", "bob", "carol", "dave"]


# ---------------------------------------------------------------------------------- witnesses (run first)
def base_cfg(**kw):
    c = dict(lc=False, uc=False, strip=False, cache_logins=True, type="htpasswd", exp_s=15, exp_f=90)
    c.update(kw)
    return c


BASE_LONG = ("correct horse battery staple / eyJhbGciOiJIUzI1NiIsInR5cCI6IkpXVCJ9." * 30)


def LONG(k, mark, base=BASE_LONG):
    """a long secret: the first k characters of the common base, then `mark`, then a common tail"""
    return base[:k] + mark + "-tail"


PREFIX_LENGTHS = [15, 16, 31, 32, 63, 64, 71, 72, 127, 128, 129, 255, 256, 511, 512, 1023, 1024]
PREFIX_LENGTHS_QUICK = [31, 32, 64, 72, 127, 128, 129, 256]

WITNESSES = [
    ("F1-sweep-rebinds-login", dict(cfg=base_cfg(), t0=T0, creds=[["alice", "pa", "alice"], ["bob", "pb", "bob"]],
                                    events=[["A", "bob", "wrong"], ["T", 100 * S], ["A", "alice", "pa"]])),
    ("F2-stale-digest-keyerror", dict(cfg=base_cfg(), t0=T0, creds=[["alice", "pa", "alice"], ["bob", "pb", "bob"]],
                                      events=[["A", "bob", "w1"], ["T", 20 * S], ["A", "bob", "w2"], ["T", 80 * S], ["A", "bob", "w2"]])),
    ("F12-cached-user", dict(cfg=base_cfg(), t0=T0, creds=[["john@x", "pj", "jdoe"]],
                             events=[["A", "john@x", "pj"], ["T", 1 * S], ["A", "john@x", "pj"]])),
    # F1, as an identity problem: mallory knows bob's password only, and is told she is bob
    ("F1-evaluated-as-other-login", dict(cfg=base_cfg(), t0=T0, creds=[["mallory", "pm", "mallory"], ["bob", "pb", "bob"]],
                                         events=[["A", "bob", "wrong"], ["T", 91 * S], ["A", "mallory", "pb"]])),
    # equal concatenations: 'ab'/'c' is rejected, then the RIGHT 'a'/'bc' (same sha3 input salt+"abc") must not be answered
    # from that entry; same for the ':' separator of the key ('x:y'/'z' vs 'x'/':yz')
    ("concat-key-ab-c", dict(cfg=base_cfg(), t0=T0, creds=[["a", "bc", "a"], ["ab", "zz", "ab"], ["abc", "q", "abc"]],
                             events=[["A", "ab", "c"], ["T", 1 * S], ["A", "a", "bc"], ["A", "abc", ""], ["A", "a", "bc"]])),
    ("concat-key-colon", dict(cfg=base_cfg(), t0=T0, creds=[["x", ":yz", "x"], ["x:y", "q", "x:y"]],
                              events=[["A", "x:y", "z"], ["T", 1 * S], ["A", "x", ":yz"], ["A", "x:y", "z"]])),
    # the back-end raises once (no verdict): nothing may be recorded, the right password afterwards is accepted
    ("backend-fault-is-no-verdict", dict(cfg=base_cfg(), t0=T0, creds=[["alice", "pa", "alice"]],
                                         events=[["F", "alice", "pa"], ["T", 1 * S], ["A", "alice", "pa"], ["T", 16 * S],
                                                 ["F", "alice", "pa"], ["A", "alice", "pa"]])),
    # long credentials that agree in a long prefix (passphrases, tokens): distinct passwords, distinct cache entries
    ("long-password-common-prefix", dict(cfg=base_cfg(), t0=T0, creds=[["alice", LONG(128, "R"), "alice"]],
                                         events=[["A", "alice", LONG(128, "R")], ["A", "alice", LONG(128, "X")],
                                                 ["T", 100 * S], ["A", "alice", LONG(127, "X")], ["A", "alice", LONG(128, "R")]])),
    # boundary: entry still valid at (expiry+1) s - 1 ns, expired at (expiry+1) s
    ("boundary-success", dict(cfg=base_cfg(exp_s=2, exp_f=5), t0=T0, creds=[["alice", "pa", "alice"]],
                              events=[["A", "alice", "pa"], ["T", 3 * S - 1], ["A", "alice", "pa"], ["T", 1], ["A", "alice", "pa"]])),
    ("boundary-failed", dict(cfg=base_cfg(exp_s=2, exp_f=5), t0=T0, creds=[["alice", "pa", "alice"]],
                             events=[["A", "alice", "w"], ["T", 6 * S - 1], ["A", "alice", "w"], ["T", 1], ["A", "alice", "w"]])),
]


# ---------------------------------------------------------------------------------- generator
def raw_variants(rng, name):
    return rng.choice([name, name, name, name.capitalize(), name.upper(), name + "@example.com",
                       name.upper() + "@X.org", name + "@", name[0].upper() + name[1:] + "@a@b"])


def gen_cfg(rng):
    r = rng.random()
    cfg = dict(lc=False, uc=False, strip=False, cache_logins=True, type="htpasswd",
               exp_s=rng.choice([0, 1, 2, 5, 15]), exp_f=rng.choice([0, 1, 3, 7, 90]))
    m = rng.random()
    if m < 0.2:
        cfg["lc"] = True
    elif m < 0.35:
        cfg["uc"] = True
    if rng.random() < 0.3:
        cfg["strip"] = True
    if r < 0.04:
        cfg["cache_logins"] = False
    elif r < 0.08:
        cfg["type"] = rng.choice(["none", "remote_user", "denyall"])
    elif r < 0.2:
        cfg["type"] = rng.choice(["ldap", "imap", "dovecot", "pam", "oauth2"])
    return cfg


def gen_table(rng, cfg, names, ldap_like):
    tbl = []
    for n in names:
        l = X.map_login_spec(cfg, n)
        tbl.append([l, "p" + n[:1], ("u-" + l) if ldap_like else l])
    return tbl


def mutate_table(rng, cfg, tbl, names, ldap_like):
    tbl = [list(r) for r in tbl]
    k = rng.random()
    if tbl and k < 0.5:
        r = rng.choice(tbl)
        r[1] = rng.choice(["w1", "w2", "p" + r[0][:1].lower(), "q"])      # a wrong password becomes right / right becomes wrong
    elif tbl and k < 0.7:
        tbl.remove(rng.choice(tbl))
    elif k < 0.9:
        n = rng.choice(names)
        l = X.map_login_spec(cfg, n)
        if not any(r[0] == l for r in tbl):
            tbl.append([l, "p" + n[:1], ("u-" + l) if ldap_like else l])
    elif tbl:
        r = rng.choice(tbl)
        r[2] = "x-" + r[0]
    return tbl


def gen_case(rng, malformed=False, deep=False):
    cfg = gen_cfg(rng)
    names = rng.sample(NAMES, rng.randint(1, 4))
    if malformed:
        names = names[:2] + rng.sample(["", "@", "a:b", "a:", "中文", "x y", "Z" * 20, ":"], 2)
    ldap_like = rng.random() < 0.25
    tbl = gen_table(rng, cfg, names, ldap_like)
    concat = None
    if not malformed and rng.random() < 0.12:
        # logins and passwords whose concatenations coincide (the digest hashes salt ++ login ++ password), incl. the
        # ':' that separates login and digest in the failed-cache key
        fam = rng.choice([(["a", "ab", "abc"], ["bc", "c", "", "b", "abc"]), (["x", "x:y", "x:"], [":yz", "z", "y:z", "yz"])])
        names = list(fam[0])
        concat = fam[1]
        right = {n: rng.choice(concat + ["zz"]) for n in names}
        tbl = [[X.map_login_spec(cfg, n), right[n], ("u-" + X.map_login_spec(cfg, n)) if ldap_like else X.map_login_spec(cfg, n)]
               for n in names]
    longfam = None
    if not malformed and concat is None and rng.random() < 0.10:
        # long secrets (passphrases, tokens) that agree in their first k characters, k around the usual buffer sizes;
        # a multi-byte character early in the base makes byte and character offsets differ
        base = (rng.choice(["", "\u4e2d"]) + BASE_LONG)
        k = rng.choice(PREFIX_LENGTHS if deep else PREFIX_LENGTHS_QUICK)
        longfam = [LONG(k, "R", base), LONG(k, "X", base), base[:k], LONG(max(k - 1, 0), "R", base), LONG(k + 1, "R", base)]
        for row in tbl:
            row[1] = longfam[0]
    tbl0 = [list(r) for r in tbl]
    nonmono = rng.random() < 0.08
    n = rng.randint(1, 30)
    events = []
    now = T0
    att_times = []
    last = None
    style = rng.choice(["mixed", "repeat", "alternate", "mixed"])
    for _ in range(n):
        r = rng.random()
        if r < 0.58 or not events:
            if last is not None and (style == "repeat" and rng.random() < 0.6 or rng.random() < 0.2):
                ev = list(last)
            else:
                name = rng.choice(names)
                login = raw_variants(rng, name) if name.isalpha() and name.isascii() and (concat is None or rng.random() < 0.15) else name
                row = [x for x in tbl if x[0] == X.map_login_spec(cfg, login)]
                right = row[0][1] if row else "p" + name[:1]
                pw = right if rng.random() < 0.5 else rng.choice(["w1", "w2", "", "p" + rng.choice(NAMES)[0], "q"])
                if concat is not None and rng.random() < 0.8:
                    pw = right if rng.random() < 0.35 else rng.choice(concat)
                if longfam is not None:
                    pw = right if rng.random() < 0.4 else rng.choice(longfam)
                ev = ["A", login, pw]
            if style == "alternate" and last is not None and rng.random() < 0.5 and len(events) >= 2:
                prev = [["A", e[1], e[2]] for e in events if e[0] in ("A", "F")]
                if len(prev) >= 2:
                    ev = list(prev[-2])
            if rng.random() < 0.04:
                ev = ["F", ev[1], ev[2]]          # the back-end raises during this attempt
            events.append(ev)
            last = ["A", ev[1], ev[2]]
            att_times.append(now)
        elif r < 0.9:
            k = rng.random()
            if k < 0.25:
                dt = rng.choice([0, 1, S - 1, S, S + 1, rng.randrange(3 * S)])
            elif k < 0.8 and att_times:
                ta = rng.choice(att_times[-5:])
                exp = rng.choice([cfg["exp_s"], cfg["exp_f"]])
                off = rng.choice([exp * S - 1, exp * S, exp * S + 1, (exp + 1) * S - 1, (exp + 1) * S, (exp + 1) * S + 1,
                                  (exp + 2) * S, max(exp - 1, 0) * S])
                dt = ta + off - now
                if dt < 0 and not nonmono:
                    dt = rng.choice([(exp + 1) * S - 1, (exp + 1) * S, 1])
            else:
                dt = rng.randrange(3 * (cfg["exp_f"] + 2) * S)
            if nonmono and rng.random() < 0.3:
                dt = -rng.randrange(1, 3 * (cfg["exp_f"] + 2) * S)
            events.append(["T", dt])
            now += dt
        else:
            tbl = mutate_table(rng, cfg, tbl, names, ldap_like)
            events.append(["C", [list(r) for r in tbl]])
    return dict(cfg=cfg, t0=T0, creds=tbl0, events=events)


def exhaustive_cases(maxlen, with_restore):
    """All histories up to maxlen over 2 logins x 2 passwords x 3 clock jumps x credential change(s),
    ending in an attempt (prefix-closed otherwise).  exp_s = 1, exp_f = 3."""
    cfg = base_cfg(exp_s=1, exp_f=3)
    t_orig = [["alice", "pa", "alice"], ["bob", "pb", "bob"]]
    t_chg = [["alice", "w", "alice"], ["bob", "pb", "bob"]]
    attempts = [["A", "alice", "pa"], ["A", "alice", "w"], ["A", "bob", "pb"], ["A", "bob", "w"]]
    others = [["T", 2 * S - 1], ["T", 2 * S], ["T", 4 * S], ["C", t_chg]]
    if with_restore:
        others.append(["C", t_orig])
    alphabet = attempts + others
    for n in range(1, maxlen + 1):
        for seq in itertools.product(alphabet, repeat=n - 1):
            for last in attempts:
                yield dict(cfg=cfg, t0=T0, creds=t_orig, events=[list(e) for e in seq] + [list(last)])


def exhaustive_concat_cases(maxlen):
    """All histories up to maxlen over login/password pairs with EQUAL concatenations ('ab'+'c' = 'a'+'bc' = 'abc'+'';
    'x:y'+'z' = 'x'+':yz'), one of each family being the right credentials, x 2 clock jumps x a credential change."""
    cfg = base_cfg(exp_s=1, exp_f=3)
    t_orig = [["a", "bc", "a"], ["ab", "zz", "ab"], ["abc", "q", "abc"], ["x", ":yz", "x"], ["x:y", "q", "x:y"]]
    t_chg = [["a", "zz", "a"], ["ab", "c", "ab"], ["abc", "q", "abc"], ["x", "q", "x"], ["x:y", "z", "x:y"]]
    attempts = [["A", "ab", "c"], ["A", "a", "bc"], ["A", "abc", ""], ["A", "x:y", "z"], ["A", "x", ":yz"]]
    alphabet = attempts + [["T", 2 * S], ["T", 4 * S], ["C", t_chg]]
    for n in range(1, maxlen + 1):
        for seq in itertools.product(alphabet, repeat=n - 1):
            for last in attempts:
                yield dict(cfg=cfg, t0=T0, creds=t_orig, events=[list(e) for e in seq] + [list(last)])


def case_key(case):
    return json.dumps([case["cfg"], case["creds"], case["events"]], sort_keys=True)


def nontrivial(case, res):
    """at least two attempts, and the cache was consulted with something in it (a cached answer, or an
    expiry/mismatch path: an attempt after an earlier attempt of the same mapped login)"""
    seen = set()
    for o in res["obs"]:
        m = X.map_login_spec(case["cfg"], o["login"])
        if m in seen:
            return True
        seen.add(m)
    return False


# ---------------------------------------------------------------------------------- run
def run(ctx):
    ctx.rule = ("history = attempts (1-4 logins, raw spellings with case/domain variants, right/wrong/empty passwords, repeated "
                "and alternating) interleaved with clock advances (0, +-1 ns / +-1 s around expiry and expiry+1 s measured from an "
                "earlier attempt, large, a few negative), credential changes and attempts during which the back-end raises; long secrets sharing a prefix; plus login/password pairs with equal concatenations; exhaustive short histories over 2 logins x 2 "
                "passwords x 3 jumps x credential change. non-trivial = some mapped login is attempted at least twice; distinct by "
                "(config, credentials, event list)")
    ctx.assumptions += [
        "concurrency: a `with self._lock:` block and a single dict.get()/len() are atomic steps (lock semantics, GIL); schedules are explored at "
        "line granularity at the lines of login that touch the caches, the lock or the back-end",
        "SHA3-512 has no collisions on the occurring inputs and salt++login++password is unambiguous for a fixed login because every "
        "salt str(time_ns) has the same length (19 digits between 2001 and 2286): digests are free constructors in the model",
        "int(d / 1000 / 1000 / 1000) on CPython floats equals truncation towards zero for |d| < 10^16 ns (115 days); validated by the "
        "age suite on boundary values; beyond that the float result can only be larger by one (an entry expires up to 1 ns early)",
        "str.lower/upper modelled on ASCII letters only (generator: ASCII names plus caseless non-ASCII characters)",
        "single-threaded use of one auth object (the _lock sections are not modelled; concurrency is C09's subject)",
        "history-level theorems quantify over total back-ends; an attempt during which `_login` raises is modelled separately (login_body_fault) and exercised by the generator",
    ]
    ctx.trusted.append("vlib/x_C17.py: logical clock substituted for radicale.auth.time, scripted back-end, renaming of real digests to symbolic ones")
    ctx.prove()
    ctx.log('proof side done')

    failures = []      # (case, rule, index, text)

    def handle(case, res, label):
        bad = X.monitor(case, res) or X.monitor_independent(case, res)
        if bad:
            failures.append((case, bad, label))
        return bad

    disagreeing = []
    ident = lambda x: x  # noqa: E731
    state = dict(n=0)
    corr = {}

    def correspond(tag, pairs):
        """pairs: list of (case, res).  Runs the repaired model variant in Coq on every history."""
        enc = [(X.enc_case(c), X.enc_expect(r)) for c, r in pairs]
        state["n"] += 1
        bad = X.diff_encoded(ctx, "c17_%s%d" % (tag, state["n"]), "(crun_case Vfix)", enc, "cexpect_eqb", ctx.n(250, 500))
        if bad is None:
            return
        t = corr.setdefault(tag, [0, 0, ""])
        t[0] += len(pairs)
        t[1] += len(bad)
        if bad and not t[2]:
            t[2] = json.dumps(pairs[bad[0]][0])[:900]
        for b_ in bad:
            if len(disagreeing) < 400:
                disagreeing.append(pairs[b_])
        ctx.extra["disagreements"] = ctx.extra.get("disagreements", 0) + len(bad)

    # ------------------------------------------------------------ 2. witnesses first
    wit = []
    for label, case in WITNESSES:
        res = X.run_real(case)
        wit.append((case, res))
        ctx.case(case_key(case), nontrivial=True, sample=dict(kind="witness", label=label, trace=X.describe(case, res)))
        ctx.count("kind:witness")
        handle(case, res, label)
    correspond("witnesses", wit)
    keep = list(wit)

    # ------------------------------------------------------------ 3. generated histories (in batches)
    n_rand = ctx.n(4000, 80000)
    n_mal = ctx.n(500, 8000)
    batch = []
    for i in range(n_rand + n_mal):
        case = gen_case(ctx.rng, malformed=i >= n_rand, deep=not ctx.quick)
        res = X.run_real(case)
        batch.append((case, res))
        nt = nontrivial(case, res)
        ctx.case(case_key(case), nontrivial=nt,
                 sample=dict(kind="generated", trace=X.describe(case, res)[:12]) if i < 2 else None)
        ctx.count("kind:malformed-logins" if i >= n_rand else "kind:generated")
        if any(n in ("ab", "abc", "x:y", "x:") for n, _, _ in case["creds"]):
            ctx.count("kind:equal-concatenations")
        if any(len(p_) > 12 for _, p_, _ in case["creds"]):
            ctx.count("kind:long-secrets-common-prefix")
        if any(e[0] == "F" for e in case["events"]):
            ctx.count("kind:with-backend-fault")
        ctx.count("events:%s" % ("1-5" if len(case["events"]) <= 5 else "6-15" if len(case["events"]) <= 15 else "16-30"))
        for o in res["obs"]:
            ctx.count("outcome:%s%s" % ("raise" if o["out"][0] == "raise" else ("ok" if o["out"][1] else "rejected"),
                                        "/cached" if o["out"][0] == "ret" and o["out"][2] else ""))
        if not X.monotone(case):
            ctx.count("kind:non-monotone-clock")
        if not X.cache_enabled(case["cfg"]):
            ctx.count("kind:cache-disabled")
        if len(failures) < 40:
            handle(case, res, "generated-%d" % i)
        if len(batch) >= 20000 or i == n_rand + n_mal - 1:
            if len(keep) < 400:
                keep += batch[:300]
            correspond("histories", batch)
            ctx.log("generated histories: %d run and compared" % (i + 1))
            batch = []

    # ------------------------------------------------------------ exhaustive short histories
    batch = []
    n_exh = 0
    for case in itertools.chain(exhaustive_concat_cases(ctx.n(3, 4)), exhaustive_cases(ctx.n(4, 5), with_restore=not ctx.quick)):
        res = X.run_real(case)
        batch.append((case, res))
        n_exh += 1
        ctx.case(case_key(case), nontrivial=nontrivial(case, res))
        if len(failures) < 40:
            handle(case, res, "exhaustive")
        if len(batch) >= 20000:
            correspond("exhaustive", batch)
            batch = []
    if batch:
        correspond("exhaustive", batch)
    ctx.count("kind:exhaustive", n_exh)
    ctx.log("exhaustive histories: %d run and compared; disagreeing so far: %d" % (n_exh, len(disagreeing)))

    for tag, (n, nbad, first) in corr.items():
        ctx.obligation("correspondence:%s" % tag, nbad == 0,
                       "" if not nbad else "model (repaired variant) differs from the implementation on %d of %d histories, first: %s"
                       % (nbad, n, first))
    if disagreeing:
        classify(ctx, disagreeing, keep)
        # the disagreeing histories and their sub-histories go through the monitors as well (search step)
        for case, res in disagreeing[:200]:
            if len(failures) >= 40:
                break
            if not any(f[0] is case for f in failures):
                handle(case, res, "disagreeing")

    ctx.log('correspondence done, disagreeing: %d' % len(disagreeing))
    # ------------------------------------------------------------ the age expression (float truncation) vs age_s
    age_suite(ctx)

    # ------------------------------------------------------------ concurrency: lock discipline (tie T) + two-thread monitor
    lock_obligations(ctx)
    concurrency(ctx)

    # ------------------------------------------------------------ report violations (shrunk, one per rule)
    reported = set()
    for case, (rule, idx, text), label in failures:
        if rule in reported:
            continue
        reported.add(rule)
        small = X.shrink(case, rule)
        res = X.run_real(small)
        bad = X.check_case(small, res)
        ctx.violation("C17 %s: %s" % (bad[0], bad[2]),
                      dict(rule=bad[0], attempt_index=bad[1], case=small, trace=X.describe(small, res), found_in=label,
                           note="replay: ./check C17 --replay <this file> re-runs the history on the real BaseAuth.login"),
                      signature=None)
    ctx.extra["monitor_failures_seen"] = len(failures)


def lock_obligations(ctx):
    """Tie T for the concurrency dimension: Gen/LoginLockGen.v (regenerated by ctx.prove()) against Proofs/C17Lock.v."""
    import os
    gen = os.path.join(core.COQ, "Gen", "LoginLockGen.v")
    text = open(gen).read() if os.path.exists(gen) else "translation failed: no file"
    ctx.obligation("translate:LoginLockGen", "translation failed" not in text, text[:600] if "translation failed" in text else "")
    with core.coq_lock():
        rc, out = core.make(["Proofs/C17Lock.vo"])
    lemmas = ["Gen_cache_accesses_locked", "Gen_cache_access_shape", "Gen_shared_attrs_locked"]
    failed_at = None
    err = ""
    if rc != 0:
        _, failed_at, err = core.locate_failure(out, default_file="Proofs/C17Lock.v")
    broken = False
    for n in lemmas:
        if rc != 0 and (failed_at == n or failed_at not in lemmas):
            broken = True
        ctx.obligation("Proofs/C17Lock.v:%s" % n, not broken, (err if failed_at in (n, None) else "not reached") if broken else "")
    if rc != 0:
        rows = [l.strip() for l in text.splitlines() if "mkAccess" in l]
        ctx.extra["cache_access_table"] = rows
        try:
            from translate import t_c17
            bad_rows = [r for r in t_c17.class_analysis(core.REPO)["rows"] if not (r[4] or (not r[3] and r[5]))]
            ctx.extra["shared_attributes_outside_the_lock"] = ["%s (line %d, %s, %s)" % (r[2], r[0], r[1], "write" if r[3] else "read")
                                                               for r in bad_rows]
        except Exception as e:  # noqa: BLE001
            ctx.extra["shared_attributes_outside_the_lock"] = "analysis failed: %r" % (e,)
        ctx.notes.append("lock discipline broken: some access to a cache dictionary other than a single atomic read is outside "
                         "`with self._lock:` (or the lock is taken by bare acquire()/release()); see cache_access_table")


def conc_scenarios(ctx):
    cfg = base_cfg(exp_s=15, exp_f=90)
    creds = [["alice", "pa", "alice"], ["bob", "pb", "bob"], ["carol", "pc", "carol"]]
    mk = lambda prefix, threads, **kw: dict(cfg=kw.get("cfg", cfg), t0=T0, creds=creds, prefix=prefix, threads=threads,  # noqa: E731
                                            followups=kw.get("followups", []))
    fixed = [
        ("expired-failed-entry,two-other-logins", mk([["A", "bob", "w"], ["T", 91 * S]], [["alice", "pa", 0], ["carol", "pc", 0]])),
        ("expired-success-entry,same-login-twice", mk([["A", "alice", "pa"], ["T", 16 * S]], [["alice", "pa", 0], ["alice", "pa", 0]])),
        ("expired-failed-entry,same-attempt-twice", mk([["A", "bob", "w"], ["T", 91 * S]], [["bob", "w", 0], ["bob", "w", 0]])),
        ("failed-entry-expires-between-the-threads", mk([["A", "bob", "w"], ["T", 91 * S - 1]], [["bob", "w", 0], ["alice", "pa", 1]])),
        ("success-entry-expires-between-the-threads", mk([["A", "alice", "pa"], ["T", 16 * S - 1]], [["alice", "pa", 0], ["alice", "pa", 1]])),
        ("valid-success-entry,right-and-wrong-password", mk([["A", "alice", "pa"], ["T", 5 * S]], [["alice", "pa", 0], ["alice", "w", 0]])),
        ("wrong-password-in-failed-cache,right-password-concurrently",
         mk([["A", "alice", "typo"], ["T", 1 * S]], [["alice", "typo", 0], ["alice", "pa", 0]],
            followups=[["alice", "pa"], ["alice", "typo"], ["bob", "pb"]])),
        ("no-entries,same-login-twice", mk([], [["alice", "pa", 0], ["alice", "pa", 0]])),
        # one thread walks the failed-login cache (housekeeping) while the other is about to ADD an entry to it, or to the
        # other cache: insertions during another thread's iteration
        ("failed-entry-present,new-failed-attempt-concurrently", mk([["A", "bob", "w"], ["T", 1 * S]], [["alice", "pa", 0], ["carol", "w", 0]])),
        ("two-failed-entries-present,two-new-failed-attempts", mk([["A", "bob", "w"], ["A", "alice", "w"], ["T", 1 * S]],
                                                                  [["carol", "w", 0], ["bob", "w2", 0]])),
        ("failed-and-success-entries-present,new-success-and-new-failure", mk([["A", "bob", "w"], ["A", "alice", "pa"], ["T", 1 * S]],
                                                                              [["carol", "pc", 0], ["bob", "w2", 0]])),
        ("two-expired-failed-entries,two-logins", mk([["A", "bob", "w"], ["A", "carol", "w"], ["T", 91 * S]],
                                                     [["bob", "w", 0], ["carol", "pc", 0]])),
    ]
    if not ctx.quick:
        fixed.append(("three-threads,expired-failed-and-success", mk([["A", "bob", "w"], ["A", "alice", "pa"], ["T", 91 * S]],
                                                                     [["alice", "pa", 0], ["alice", "pa", 0], ["bob", "w", 0]])))
    rng = ctx.rng
    pool = [["alice", "pa"], ["alice", "w"], ["bob", "pb"], ["bob", "w"], ["carol", "pc"]]
    out = list(fixed)
    for i in range(ctx.n(6, 60)):
        c = base_cfg(exp_s=rng.choice([0, 1, 15]), exp_f=rng.choice([1, 3, 90]))
        prefix = []
        for _ in range(rng.randint(1, 4)):
            prefix.append(["A"] + rng.choice(pool))
            if rng.random() < 0.3:
                prefix.append(["T", rng.choice([1, S, (c["exp_s"] + 1) * S])])
        e = rng.choice([c["exp_s"], c["exp_f"]])
        prefix.append(["T", rng.choice([(e + 1) * S - 1, (e + 1) * S, (e + 1) * S - 2, e * S, 1])])
        th = [rng.choice(pool) + [rng.choice([0, 0, 1, 2, S])] for _ in range(2)]
        if rng.random() < 0.4:
            th[1] = [th[0][0], th[0][1], th[1][2]]
        out.append(("random-%d" % i, mk(prefix, th, cfg=c)))
    return out


def concurrency(ctx):
    """Two (three) threads inside the real login under a deterministic scheduler; every schedule with a bounded number of
    preemptions + seeded random schedules: no exception, all terminate, lock free afterwards, users = some serial order."""
    lines = XC.yield_lines()
    ctx.extra["concurrent_scheduling_points"] = sorted(lines[0])
    ctx.extra["concurrent_traced_methods"] = sorted(lines[1])
    reported = set()
    total = 0
    for label, scn in conc_scenarios(ctx):
        deep = "-present," in label      # insertion during another thread's iteration needs three preemptions (B before its
        #                                  update, A into the walk, B's update, A's next step)
        n, bad = XC.check_scenario(scn, lines, 3 if deep else ctx.n(2, 3), rng=ctx.rng, n_random=ctx.n(10, 200),
                                   budget=ctx.n(1500 if deep else 120, 3000))
        total += n
        ctx.case(("concurrent", json.dumps(scn, sort_keys=True)), nontrivial=True,
                 sample=dict(kind="concurrent", label=label, prefix=scn["prefix"], threads=scn["threads"], schedules=n) if label.startswith("expired-failed") else None)
        ctx.count("kind:concurrent-scenario")
        if bad and bad["rule"] not in reported:
            reported.add(bad["rule"])
            ctx.violation("C17 %s: %s" % (bad["rule"], bad["text"]),
                          dict(rule=bad["rule"], scenario=scn, label=label, schedule=bad["schedule"],
                               results=[list(r) for r in bad["results"]], followups=bad.get("followups"),
                               executed_lines=["thread %d line %d" % (t, ln) for t, ln in bad["trace"]],
                               note="replay: ./check C17 --replay <this file> re-runs this schedule on the real BaseAuth.login; "
                                    "schedule = the thread chosen at each scheduling point (lines of login that touch the caches, "
                                    "the lock or the back-end)"),
                          signature=None)
    ctx.count("concurrent-schedules-executed", total)
    ctx.log("concurrency: %d schedules executed, rules violated: %s" % (total, sorted(reported) or "none"))


def classify(ctx, disagreeing, allpairs):
    """Which variant of the model (which of the three defects present) does the implementation correspond to?"""
    sample = disagreeing[:300] + allpairs[:300]
    enc = [(X.enc_case(c), X.enc_expect(r)) for c, r in sample]
    ident = lambda x: x  # noqa: E731
    matches = []
    for f1, f2, f3 in itertools.product([False, True], repeat=3):
        if f1 and f2 and f3:
            continue
        fn = "(crun_case %s)" % X.variant_term(f1, f2, f3)
        bad = X.diff_encoded(ctx, "c17_var_%d%d%d" % (f1, f2, f3), fn, enc, "cexpect_eqb", 200)
        if bad is not None and not bad:
            matches.append(dict(fix1=f1, fix2=f2, fix3=f3))
    ctx.extra["implementation_matches_model_variant"] = matches
    if matches:
        m = matches[0]
        present = [n for n, k in (("F1 (sweep rebinds login)", "fix1"), ("F2 (stale digest -> KeyError)", "fix2"),
                                  ("F12 (cached success returns login, not the back-end's user)", "fix3")) if not m[k]]
        ctx.notes.append("the implementation agrees on all sampled histories with the model variant that still has: " + "; ".join(present))
        ctx.log("implementation corresponds to the model with defects present:", "; ".join(present))


def age_suite(ctx):
    fns = X.age_expressions()
    ctx.extra["age_expressions_found"] = [n for n, _ in fns]
    if not fns:
        ctx.notes.append("no `age_* = int(...)` expression over time_ns/time_ns_cache found in login(); age suite skipped")
        return
    rng = ctx.rng
    ds = set()
    for k in list(range(0, 200)) + [rng.randrange(200, 10 ** 7) for _ in range(ctx.n(300, 5000))] + [10 ** 6, 10 ** 7 - 1]:
        for off in (-1, 0, 1, rng.randrange(S)):
            ds.add(k * S + off)
            ds.add(-(k * S + off))
    ds = sorted(ds)
    cases = []
    for name, f in fns:
        for d in ds:
            t = T0 + rng.randrange(10 ** 6)
            cases.append(((t + d, t), f(t + d, t)))
        break                                   # the expressions are textually identical; compare them to each other below
    for name, f in fns[1:]:
        for d in ds[:: max(1, len(ds) // 500)]:
            if f(T0 + d, T0) != fns[0][1](T0 + d, T0):
                ctx.obligation("correspondence:age:%s" % name, False, "age expressions of login() differ at d=%d" % d)
                break
    bad = ctx.diff_cases("c17_age", X.HEADER, "(fun p => age_s (fst p) (snd p))", cases,
                         lambda p: "(%s, %s)" % (X.enc_T(p[0]), X.enc_T(p[1])), enc_Z, "Z.eqb", shard=1000)
    ctx.count("cases:age", len(cases))
    if bad is not None:
        ctx.obligation("correspondence:age", not bad, "" if not bad else "age_s differs from %s at %r" % (fns[0][0], cases[bad[0]]))
    if not ctx.quick:
        # where does CPython's float arithmetic stop agreeing with truncation?  (documented bound: 10^16 ns)
        f = fns[0][1]
        first = None
        for k in range(1, 20_000_000):
            if f(T0 + k * S - 1, T0) != k - 1:
                first = k
                break
        ctx.extra["first_float_deviation_at_seconds"] = first
        if first is not None and first * S < 10 ** 16:
            ctx.obligation("assumption:float-truncation-bound", False, "int(d/1000/1000/1000) deviates from truncation at d=%d*10^9-1" % first)


def replay(ctx, path):
    data = json.load(open(path))
    rp = data.get("replay", {})
    if rp.get("scenario"):
        rec, bad = XC.replay_schedule(rp["scenario"], rp["schedule"])
        print("prefix:", rp["scenario"]["prefix"])
        print("threads:", rp["scenario"]["threads"])
        print("schedule:", rp["schedule"])
        for t, ln in rec["trace"]:
            print("  thread %d line %d" % (t, ln))
        print("results:", rec["results"], "lock left held:", rec["lock_left_held"])
        for f in rec.get("followups", []):
            print("follow-up login(%r, %r) -> %r" % (f["login"], f["pw"], f["out"]))
        print("monitor:", bad)
        return 1 if bad else 0
    case = rp.get("case")
    if not case:
        print(json.dumps(data, indent=1)[:4000])
        return 0
    res = X.run_real(case)
    for line in X.describe(case, res):
        print(line)
    bad = X.check_case(case, res)
    print("monitor:", bad)
    return 1 if bad else 0
