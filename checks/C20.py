"""C20 -- The built-in server bounds concurrency and request size and shuts down cleanly.

1. proof: Props/C20.v over Model/Server.v (transition system of serve()'s accept loop, the connection
   threads and the request gate): bound, progress, silent clients, 413, shutdown -- all event orders.
2. correspondence (tie K), lock-step: the REAL radicale.server.serve() runs in a thread of a driver process
   (vlib/drivers/c20_driver.py); the handler is replaced by one that blocks per connection, select() is
   proxied so that the script decides when the loop takes its next iteration.  Randomly generated scripts
   (connect / send / close / release / iter / stop / wait for timeouts) are played; every event and what the
   implementation did (rlist composition, select result, reaped sockets, accepted connection, handler
   entries, status codes, time-outs, return of serve) is replayed through the Coq model with vm_compute.
3. correspondence of the request gate alone: direct WSGI calls of the real Application._handle_request.
4. monitors on the implementation (direct statements of the property): simultaneous handler invocations and
   worker sockets <= max_connections, queued clients are served once slots free up, silent clients are
   dropped not before and not much after the timeout, oversized declared bodies get 413 and never reach the
   handler, no accept after the shutdown was seen, serve() returns only after every connection finished and
   every request in flight got its complete response.
"""
import copy
import json
import os

from vlib import core, x_c20


def all_verbs():
    """every method the application dispatches (do_* of the Application under test)"""
    from radicale.app import Application
    return sorted(n[3:] for n in dir(Application) if n.startswith("do_"))


def gate_cases(rng, n):
    """request gate: every combination of the gate's tests with boundary Content-Length values, for EVERY method"""
    cases = []
    verbs = all_verbs()
    cls = lambda ml: [None, "", "0", "1", str(max(ml - 1, 0)), str(ml), str(ml + 1), str(ml + 2), str(10 ** 15),  # noqa: E731
                      "-1", "-%d" % (ml + 1), "abc", "1_0", " %d " % (ml + 1), "+%d" % (ml + 1), "0x1F", "1.0", "٣٣"]
    for internal in (True, False):
        for ml in (0, 1, 10, 100000000):
            for cl in cls(ml):
                for verb in verbs:
                    for auth in (("anon", "ok", "fail") if verb == "PUT" else ("anon",)):
                        cases.append(dict(internal=internal, max_len=ml,
                                          m=dict(pref="ok", method=True, wk="none", auth=auth, cl=cl, verb=verb)))
    while len(cases) < n:
        ml = rng.choice([0, 1, 7, 10, 4096, 100000000])
        m = dict(pref=rng.choice(["ok"] * 6 + ["badheader", "badscript"]), method=rng.random() < 0.85,
                 wk=rng.choice(["none"] * 6 + ["redirect", "notfound"]), auth=rng.choice(["anon", "ok", "fail"]),
                 cl=rng.choice(cls(ml) + [str(ml + 1)] * 6), verb=rng.choice(verbs))
        cases.append(dict(internal=rng.random() < 0.8, max_len=ml, m=m))
    return cases


def make_jobs(ctx, n):
    grid = x_c20.script_cfgs(ctx.rng)
    jobs = []
    for i in range(n):
        g = dict(grid[i % len(grid)])
        short = 0 < g["timeout"] < 5
        g["max_len"] = ctx.rng.choice([0, 1, 10, 1000])
        g["nmax"] = ctx.rng.choice([4, 6, 8]) if not short else ctx.rng.choice([4, 6])
        jobs.append(dict(kind="script", cfg=g, seed=ctx.rng.randrange(10 ** 9), nops=ctx.rng.choice([15, 30, 50]),
                         lockstep=True, script=None))
    return jobs


def replay_dict(job, res):
    return dict(driver="vlib/drivers/c20_driver.py", cfg=job["cfg"], seed=job["seed"], script=res.get("ops"),
                failures=res.get("fail"), notes=res.get("notes"), events=res.get("events"), observed=res.get("obs"))


def nontrivial(res):
    """a script is non-trivial when more clients than slots existed at once or a shutdown met requests in
    flight or a timeout / 413 occurred"""
    st = res.get("stats", {})
    cfg = res["cfg"]
    return bool((cfg["max_conn"] > 0 and res.get("n_clients", 0) > cfg["max_conn"]) or st.get("timeouts") or
                st.get("too_large") or st.get("quiet_checks"))


def robust_diff(ctx, tag, header, fn, cases, in_enc, out_enc, eqb, shard, batch=800):
    """ctx.diff_cases in batches; a batch whose coqc processes produced no output (killed on an overloaded machine)
    is evaluated again, up to three times, before it counts as a broken obligation"""
    bad = []
    for k in range(0, len(cases), batch):
        chunk = cases[k:k + batch]
        for attempt in range(3):
            n = len(ctx.obligations)
            b = ctx.diff_cases("%s_%d" % (tag, k // batch), header, fn, chunk, in_enc, out_enc, eqb, shard=shard)
            if b is not None:
                bad += [k + i for i in b]
                break
            if attempt < 2:
                del ctx.obligations[n:]
                ctx.notes.append("model evaluation of batch %s/%d repeated" % (tag, k // batch))
        else:
            return None
    return bad


def report(ctx, seen, what, replay, key=None):
    """at most three replays per kind of failure"""
    key = key or what.split(" (script seed")[0]
    seen[key] = seen.get(key, 0) + 1
    if seen[key] <= 3:
        ctx.violation(what, replay, signature=None)


def run_scripts(ctx, jobs, tag, procs, seen):
    results = x_c20.run_jobs(jobs, ctx.scratch(), procs=procs)
    # one retry for inconclusive runs that are not failures of the implementation
    retry = [i for i, r in enumerate(results) if r.get("inconclusive") and not r.get("fail") and not r.get("skipped")]
    if any(r.get("fail") for r in results):
        retry = []          # real failures were found: no time is spent on retries
    if retry:
        again = x_c20.run_jobs([jobs[i] for i in retry], ctx.scratch(), procs=max(1, procs // 2))
        for i, r in zip(retry, again):
            results[i] = r
    cases, idx = [], []
    for i, (job, res) in enumerate(zip(jobs, results)):
        ctx.count("%s:max_conn=%d" % (tag, job["cfg"]["max_conn"]))
        ctx.count("%s:listeners=%d" % (tag, job["cfg"]["listeners"]))
        ctx.count("%s:timeout=%s" % (tag, job["cfg"]["timeout"]))
        if res.get("skipped"):
            ctx.count("%s:skipped-after-failures" % tag)
            continue
        if res.get("driver_error"):
            ctx.obligation("driver-ran:%s:%d" % (tag, i), False, res.get("inconclusive", ""))
            continue
        for f in res.get("fail", []):
            report(ctx, seen, "%s: %s" % (tag, f.get("what")), replay_dict(job, res))
        if res.get("inconclusive"):
            ctx.count("%s:inconclusive" % tag)
            ctx.notes.append("inconclusive script seed=%d: %s" % (job["seed"], res["inconclusive"][:200]))
            if not res.get("fail"):
                continue
        for k, v in res.get("stats", {}).items():
            ctx.count("%s:sum_%s" % (tag, k), v)
        for op in res.get("ops", []):
            ctx.count("%s:op_%s" % (tag, op[0]))
        if res.get("free"):
            ctx.case((tag, job["seed"], json.dumps(job["cfg"], sort_keys=True)), nontrivial=nontrivial(res),
                     sample=dict(mode="free-running", cfg=job["cfg"], stop_at=res.get("stop_at"),
                                 clients=[(p["kind"], p["hold"]) for p in res.get("plans", [])],
                                 max_in_handler=res.get("max_in_handler"), selects=res.get("n_selects"))
                     if nontrivial(res) and i < 3 else None)
            ctx.count("%s:sum_selects" % tag, res.get("n_selects", 0))
            continue
        ctx.case((tag, json.dumps(res.get("events"), sort_keys=True), json.dumps(job["cfg"], sort_keys=True)),
                 nontrivial=nontrivial(res),
                 sample=dict(cfg=job["cfg"], script=res.get("ops"), observed=res.get("obs")[:40])
                 if nontrivial(res) and i < 3 else None)
        cases.append(((job["cfg"], res["events"]), res["obs"]))
        idx.append(i)
    if cases:
        bad = robust_diff(ctx, "c20" + tag, x_c20.HEADER, "play", cases, x_c20.enc_case_in, x_c20.enc_case_out,
                          "play_eqb", shard=40)
        if bad is not None:
            ctx.traces_validated += len(cases) - len(bad)
            ctx.obligation("correspondence:%s" % tag, not bad, "model and implementation differ on %d scripts" % len(bad))
            for b in bad[:5]:
                i = idx[b]
                shown = ctx.coq_show(x_c20.HEADER, "play %s" % x_c20.enc_case_in(cases[b][0]))
                rd = replay_dict(jobs[i], results[i])
                rd["model_says"] = shown[-1200:]
                report(ctx, seen, "%s: the server loop's decisions differ from the model (script seed %d)" % (
                    tag, jobs[i]["seed"]), rd)
    return results


def run(ctx):
    ctx.rule = ("script = random interleaving (seeded) of connect/partial-head/send (head with or without the declared body)/body/close/release/iter/stop/wait-for-timeouts played "
                "against the real serve() in lock-step, configurations from the grid max_connections {0,1,2,3} x listeners "
                "{1,2} x timeout {0, 60, 0.3 s} x max_content_length {0,1,10,1000}; non-trivial = more clients than "
                "slots existed, or a socket timeout / a 413 / a shutdown with unfinished connections occurred; distinct by "
                "the full event list and configuration.  gate = direct WSGI calls, full grid of Content-Length "
                "boundary values x auth x internal x limit plus random early-return combinations; all counted non-trivial "
                "when a limit > 0 is configured.")
    ctx.assumptions += [
        "select() returns exactly the ready descriptors of rlist; accept() returns the oldest queued connection",
        "threads, sockets, socket timeouts and the TCP backlog are the runtime: they appear in the model as environment events",
        "one request per connection (wsgiref closes after the response)",
        "the application handler terminates (a handler that never returns keeps its slot; serve() then never returns)",
        "the sockets serve() waits on (worker socket pairs, shutdown socket) are blocking: monitored at every select call "
        "(gettimeout() is None, i.e. nobody changed the process-wide socket default) and end-to-end for every auth back-end",
    ]
    ctx.level = "proof"
    ctx.prove()
    procs = 8
    seen = {}
    # ---------------------------------------------------------------- request gate
    gcases = gate_cases(ctx.rng, ctx.n(1200, 20000))
    gres = x_c20.run_jobs([dict(kind="gate", cases=gcases)], ctx.scratch(), procs=1)[0]
    if gres.get("driver_error") or "results" not in gres:
        ctx.obligation("driver-ran:gate", False, str(gres)[:1500])
    else:
        pairs = []
        for case, r in zip(gcases, gres["results"]):
            ml, m = case["max_len"], case["m"]
            a = x_c20.abstract_cl(m.get("cl"))
            key = (case["internal"], ml, m["pref"], m["method"], m.get("verb"), m["wk"], m["auth"], a)
            ctx.count("gate:verb_%s" % (m.get("verb") if m["method"] else "unknown"))
            ctx.case(("gate",) + key, nontrivial=ml > 0, sample=None)
            ctx.count("gate:status_%d" % r["status"])
            out = (None if r["invoked"] else r["status"], r["invoked"])
            if r["invoked"] and r["status"] != 200:
                out = (r["status"], True)
            pairs.append(((case["internal"], ml, m), out))
            # monitor: the property itself
            if case["internal"] and ml > 0 and a[0] == "int" and a[1] > ml:
                early = m["pref"] != "ok" or not m["method"] or m["wk"] != "none"
                if r["invoked"] or (not early and r["status"] != 413):
                    report(ctx, seen, "request with declared length %d > max_content_length %d: status %d, handler invoked: %s"
                           % (a[1], ml, r["status"], r["invoked"]),
                           dict(kind="gate", case=case, result=r), key="gate:oversized:invoked=%s" % r["invoked"])
            if r["status"] == 413 and not (case["internal"] and ml > 0 and a[0] == "int" and a[1] > ml):
                report(ctx, seen, "413 for a request that does not exceed max_content_length",
                       dict(kind="gate", case=case, result=r))
        bad = robust_diff(ctx, "c20gate", x_c20.HEADER, "gate_out", pairs, x_c20.enc_gate_in, x_c20.enc_gate_out,
                          "gate_out_eqb", shard=700, batch=7000)
        if bad is not None:
            ctx.obligation("correspondence:gate", not bad, "gate model differs on %d cases, e.g. %r" % (
                len(bad), [(gcases[b], gres["results"][b]) for b in bad[:3]]))
            for b in bad[:3]:
                report(ctx, seen, "request gate differs from the model", dict(kind="gate", case=gcases[b], result=gres["results"][b]))
    # ---------------------------------------------------------------- the REAL handlers: every method x declared length
    ML = 50
    declared = [None, "0", "1", "49", "50", "51", "52", "100000", "10000000000", "-1", "-51"]
    rres = x_c20.run_jobs([dict(kind="realgate", max_len=ML, declared=declared)], ctx.scratch(), procs=1)[0]
    if rres.get("driver_error") or "results" not in rres:
        ctx.obligation("driver-ran:realgate", False, str(rres)[:1500])
    else:
        ctx.obligation("realgate:every-dispatched-method-is-exercised", not rres["verbs_without_request"],
                       "no request for %r in real_requests() of the driver" % (rres["verbs_without_request"],))
        for r in rres["results"]:
            known = r["method"] in rres["verbs"]
            if r["declared"] == "honest":
                ctx.count("realgate:honest:%s:read=%s,changed=%s" % (r["method"], r["nread"] > 0, r["store_changed"]))
                continue
            a = r["cl_abs"]
            ctx.case(("realgate", r["method"], r["declared"]), nontrivial=a[0] == "int" and (a[1] > ML or a[1] < 0))
            ctx.count("realgate:status_%d" % r["status"])
            rp = dict(kind="realgate", max_len=ML, declared=[r["declared"]], result=r)
            if a[0] == "int" and a[1] > ML:
                want = 413 if known else 405
                if r["status"] != want or r["nread"] or r["store_changed"]:
                    report(ctx, seen, "%s with declared length %d > max_content_length %d on the real application: status %d "
                           "(expected %d), %d body bytes read, store changed: %s" % (
                               r["method"], a[1], ML, r["status"], want, r["nread"], r["store_changed"]), rp,
                           key="realgate:oversized")
            elif a[0] == "int" and a[1] < 0:
                want = 400 if known else 405
                if r["status"] != want or r["nread"] or r["store_changed"]:
                    report(ctx, seen, "%s with negative declared length on the real application: status %d, %d body bytes "
                           "read, store changed: %s" % (r["method"], r["status"], r["nread"], r["store_changed"]), rp,
                           key="realgate:negative")
            if r["nread"] > ML:
                report(ctx, seen, "%s: %d body bytes read although max_content_length is %d" % (r["method"], r["nread"], ML),
                       rp, key="realgate:read-more-than-limit")
            if r["status"] == 413 and not (a[0] == "int" and a[1] > ML):
                report(ctx, seen, "413 for a request that does not exceed max_content_length", rp)
    # ---------------------------------------------------------------- silence in every phase of a request (real application)
    PLAIN = ["nothing", "in-head", "head-no-body:PUT", "head-no-body:PROPFIND", "partial-body:REPORT"]
    PLAIN2 = ["head-no-body:MKCALENDAR", "partial-body:PUT", "head-no-body:PROPPATCH", "head-no-body:REPORT", "in-head",
              "partial-body:MKCOL"]
    TLS = ["tcp-no-handshake", "after-handshake", "head-no-body:PUT"]
    variants = ctx.n([(1, 1.0, False, PLAIN), (1, 1.0, True, TLS)],
                     [(1, 1.0, False, PLAIN), (1, 1.0, True, TLS), (2, 1.5, False, PLAIN2), (2, 1.0, True, TLS + ["partial-body:REPORT"]),
                      (1, 2.0, False, PLAIN2), (1, 2.0, True, TLS)])
    sjobs = [dict(kind="silent", cfg=dict(max_conn=mc, timeout=T, max_len=1000, listeners=1, nmax=6, ssl=tls), phases=ph,
                  seed=ctx.rng.randrange(10 ** 6)) for (mc, T, tls, ph) in variants]
    for job, res in zip(sjobs, x_c20.run_jobs(sjobs, ctx.scratch(), procs=len(sjobs))):
        if res.get("driver_error"):
            ctx.obligation("driver-ran:silent", False, res.get("inconclusive", ""))
            continue
        for ph in job["phases"]:
            ctx.case(("silent", ph, json.dumps(job["cfg"], sort_keys=True)), nontrivial=True)
            ctx.count("silent-phase:%s%s" % (ph, ":tls" if job["cfg"]["ssl"] else ""))
        if len(ctx.samples) < 6:
            ctx.samples.append(dict(mode="silent-phases", cfg=job["cfg"], steps=res.get("steps")))
        if res.get("inconclusive"):
            ctx.notes.append("inconclusive silent-phase scenario: %s" % res["inconclusive"][:200])
        for f in res.get("fail", []):
            report(ctx, seen, f.get("what"), dict(kind="silent", cfg=job["cfg"], phases=job["phases"], seed=job["seed"],
                                                  failures=res.get("fail"), steps=res.get("steps")))
    # ---------------------------------------------------------------- every auth back-end x login history x shutdown in flight
    from radicale import auth as _auth
    ajobs = [dict(kind="authsweep", cfg=dict(max_conn=4, timeout=30, max_len=0, listeners=1, nmax=6, auth_type=t),
                  seed=ctx.rng.randrange(10 ** 6)) for t in _auth.INTERNAL_TYPES]
    for job, res in zip(ajobs, x_c20.run_jobs(ajobs, ctx.scratch(), procs=len(ajobs))):
        t = job["cfg"]["auth_type"]
        if res.get("driver_error"):
            ctx.obligation("driver-ran:authsweep:%s" % t, False, res.get("inconclusive", ""))
            continue
        if res.get("unavailable"):
            ctx.count("authsweep:unavailable:%s" % t)
            ctx.notes.append("auth back-end %s not exercised: %s" % (t, res["unavailable"][:120]))
            continue
        if res.get("inconclusive"):
            ctx.notes.append("inconclusive authsweep scenario (%s): %s" % (t, res["inconclusive"][:200]))
            continue
        ctx.case(("authsweep", t), nontrivial=True)
        ctx.count("authsweep:%s" % t)
        for f in res.get("fail", []):
            report(ctx, seen, f.get("what"), dict(kind="authsweep", cfg=job["cfg"], seed=job["seed"], failures=res.get("fail"),
                                                  steps=res.get("steps")), key="authsweep:" + f.get("what", "")[:30])
    # ---------------------------------------------------------------- exit signals against the real process (python -m radicale)
    sigjobs = [dict(kind="signals", inflight=True, signals=["TERM", second], gap=0.2) for second in ("TERM", "INT", "HUP")]
    sigjobs += [dict(kind="signals", inflight=True, signals=["INT", "INT"], gap=0),
                dict(kind="signals", inflight=False, signals=["TERM"], gap=0),
                dict(kind="signals", inflight=False, signals=["TERM", "HUP"], gap=0)]
    if not ctx.quick:
        names = ("TERM", "INT", "HUP", "QUIT")
        sigjobs += [dict(kind="signals", inflight=True, signals=[x, y], gap=g) for x in names for y in names
                    for g in (0, 0.2) if not (x == "TERM" and g == 0.2 and y != "QUIT")]
        sigjobs += [dict(kind="signals", inflight=True, signals=["TERM", "HUP", "INT", "QUIT"], gap=0.05),
                    dict(kind="signals", inflight=True, signals=["HUP"], gap=0),
                    dict(kind="signals", inflight=False, signals=["INT", "INT"], gap=0),
                    dict(kind="signals", inflight=False, signals=["QUIT"], gap=0)]
    for job, res in zip(sigjobs, x_c20.run_jobs(sigjobs, ctx.scratch(), procs=min(8, len(sigjobs)))):
        if res.get("driver_error"):
            ctx.obligation("driver-ran:signals", False, res.get("inconclusive", ""))
            continue
        if res.get("inconclusive"):
            ctx.notes.append("inconclusive signal scenario: %s" % res["inconclusive"][:200])
            continue
        ctx.case(("signals", job["inflight"], tuple(job["signals"]), job["gap"]), nontrivial=len(job["signals"]) > 1 or job["inflight"])
        ctx.count("signals:%s%s" % ("+".join(job["signals"]), ":inflight" if job["inflight"] else ""))
        if len(job["signals"]) > 1 and job["inflight"] and not any(x.get("mode") == "signals" for x in ctx.samples):
            ctx.samples = ctx.samples[:5] + [dict(mode="signals", job=job, steps=res.get("steps"))]
        for f in res.get("fail", []):
            report(ctx, seen, f.get("what"), dict(kind="signals", inflight=job["inflight"], signals=job["signals"], gap=job["gap"],
                                                  failures=res.get("fail"), steps=res.get("steps")),
                   key="signals:" + f.get("what", "")[:40])
    # ---------------------------------------------------------------- regression of the fixed negative-length finding
    # over the socket, real do_PUT: a negative or oversized declared length must not make the handler read the body
    nres = x_c20.run_jobs([dict(kind="neglen", declared="-1", body=300000, max_len=1000),
                           dict(kind="neglen", declared="2000", body=300000, max_len=1000)], ctx.scratch(), procs=1)
    ctx.extra["negative_content_length_witness"] = nres
    for r in nres:
        if r.get("error"):
            ctx.notes.append("negative-length witness not evaluated: %s" % r["error"][-200:])
        elif max(r.get("bytes_read_by_handler") or [0]) > 1000:
            report(ctx, seen, "PUT with Content-Length: %s and max_content_length=1000 over the socket: the handler read %d "
                   "body bytes (status %s)" % (r["declared"], max(r["bytes_read_by_handler"]), r.get("status")),
                   dict(kind="neglen", declared=r["declared"], body=r["sent"], max_len=r["max_len"], witness=r))
    # ---------------------------------------------------------------- scripts against serve()
    jobs = make_jobs(ctx, ctx.n(72, 4000))
    run_scripts(ctx, jobs, "lockstep", procs, seen)
    # ---------------------------------------------------------------- the same server, free-running (real timing)
    fjobs = make_jobs(ctx, ctx.n(48, 2400))
    for j in fjobs:
        j["lockstep"] = False
    if len(ctx.violations) >= 3:
        ctx.notes.append("free-running stage skipped: the lock-step stage already produced %d replays" % len(ctx.violations))
    else:
        run_scripts(ctx, fjobs, "free", procs, seen)


def replay(ctx, path):
    rp = json.load(open(path))["replay"]
    if rp.get("kind") in ("realgate", "silent", "neglen", "signals", "authsweep"):
        job = dict(rp)
        job.pop("result", None)
        job.pop("witness", None)
        job.pop("failures", None)
        job.pop("steps", None)
        res = x_c20.run_jobs([job], ctx.scratch(), procs=1)[0]
        print(json.dumps(res, indent=1)[:6000])
        return 1 if res.get("fail") else 0
    if rp.get("kind") == "gate":
        res = x_c20.run_jobs([dict(kind="gate", cases=[rp["case"]])], ctx.scratch(), procs=1)[0]
        print(json.dumps(res, indent=1))
        return 0
    job = dict(kind="script", cfg=rp["cfg"], seed=rp["seed"], nops=0, lockstep=rp.get("script") is not None,
               script=rp["script"])
    res = x_c20.run_jobs([job], ctx.scratch(), procs=1)[0]
    print(json.dumps(dict(fail=res.get("fail"), inconclusive=res.get("inconclusive"), ops=res.get("ops"),
                          observed=res.get("obs")), indent=1))
    return 1 if res.get("fail") else 0
