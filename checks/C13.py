"""C13 -- The item cache never changes what clients see.

1. proof: Props/C13.v over Model/Cache.v (hand model of cache.py, get.py, upload.py, move.py, delete.py,
   create_collection.py) -- C13_get, C13_equiv (+ cacheless refinement), C13_writes_sound, C13_external_edit, ...
2. correspondence (tie K): pairs of runs (A: untouched cache, fixed configuration; B: entries / trees deleted,
   older entries put back, unreadable entries planted, key mode / location / cache version switched, another reader
   filling an entry between look-up and re-check) of one seeded request history (PUT, GET, PROPFIND 0/1, REPORT
   multiget / query, MOVE, DELETE, DELETE+MKCALENDAR, PUT of a whole calendar, external edits under the storage
   lock) on the real in-process server.  Every storage call of the server (_get with its real cache decision
   hit / miss / hit at re-check / store key / clean, _list, upload, create_collection, move, delete) and the complete
   cache after every request are compared with what Model/CacheRun.v computes (vm_compute) for the same script.
3. monitors on the implementation: (a) the property itself -- the responses (status, ETag, Content-Type, body,
   listings) of run A and run B are identical; (b) C13_get stated on the server -- every GET / listing entry equals
   a cold derivation of the file's current bytes (so an externally replaced file is served with its new content
   and ETag); (c) stale-entry probe at storage level, (d) the re-check under the cache lock; (e) write faults (ENOSPC while
   the entry is written) in histories and probes + the rule "entries are published by rename only" (audit hook);
   (f) same size / same mtime_ns edits under hash keying; (g) the storage hook as external editor racing a GET.
   (h) residue of interrupted atomic writes in the cache folders (run B); (i) two readers rebuilding after the cache folders
   were removed; (j) the two key functions are exactly SHA-256(version + bytes) / version + size + mtime_ns, with a collision
   search when not.  Per pair: [encoding] stock in {utf-8, iso-8859-1, cp1252} with non-ASCII text.
"""
import concurrent.futures
import json
import os
import pickle
import sys

from vlib import core

HEADER = """From Coq Require Import List NArith Bool.
Import ListNotations.
Require Import RV.Model.Cache RV.Model.CacheRun.
Open Scope N_scope.
"""


def _pair(args):
    seed, length = args
    sys.path.insert(0, core.VERIF)
    from vlib import x_c13
    try:
        return x_c13.run_pair(seed, length, keep_acts=False)
    except Exception as e:  # a crash of the harness is reported, never swallowed
        import traceback
        return dict(seed=seed, crash=traceback.format_exc()[-3000:], failures=[], cases=[], unmodelled=[], counts={},
                    history=[])


def _one(seed, length):
    from vlib import x_c13
    return x_c13.run_pair(seed, length, keep_acts=True)


def run(ctx):
    ctx.rule = ("case = one run (A or B) of a seeded history of ~L requests / external edits on the real server, as the "
                "script of its storage calls + manipulations; distinct by the script text; non-trivial = the run contains "
                "at least one cache hit and one miss (run B additionally at least one manipulation)")
    ctx.assumptions += [
        "derive (vobject parse + check_and_sanitize_items + Item + re-serialise) is a function of (cache version, collection tag, "
        "bytes): true for every file Radicale writes; a VEVENT/VTODO file without DTSTAMP planted by other means gets DTSTAMP:<now> "
        "at every derivation (observation, notes/C13.md)",
        "the entry written at upload time (content of the uploaded item) equals the derivation of the bytes written "
        "(C14's fixed point; hypothesis op_ok of the theorems; sampled here by monitor (a)/(b))",
        "stat mode (use_mtime_and_size_for_item_cache): among the file versions of a history, equal size and mtime_ns imply equal "
        "bytes (hypothesis stat_ok; C13_stat_assumption_needed shows it is necessary). The harness gives every written file a "
        "fresh logical mtime",
        "SHA-256 has no collisions on the occurring inputs; a hex digest never equals a 'size=..;mtime=..' key (free constructors)",
        "the tag of a collection name does not change during a history and items only move between collections of the same tag "
        "(app/move.py refuses otherwise), so one derive function serves all entries of a cache tree",
        "planted entries are pickles the server wrote (or unreadable in a way _load_item_cache swallows); empty/truncated "
        "entry files are outside the property (EOFError is not caught: lemma empty_entry_fails)",
    ]
    ctx.trusted.append("vlib/x_c13.py: wrappers around the multifilesystem Collection/Storage methods (trace), the logical mtime clock, "
                       "the cold derivation through radicale.item's public API")
    ctx.prove()

    length = ctx.n(42, 60)
    npairs = ctx.n(160, 3000)
    seeds = [ctx.rng.randrange(10 ** 9) for _ in range(npairs)]
    corpus = corpus_seeds()
    jobs = [(s, length) for s in corpus + seeds]
    results = []
    with concurrent.futures.ProcessPoolExecutor(max_workers=14) as ex:
        for r in ex.map(_pair, jobs, chunksize=4):
            results.append(r)
    ctx.log("ran %d pairs" % len(results))

    cases, case_src = [], []
    crashes, unmodelled = [], []
    first_fail = {}
    for r in results:
        if r.get("crash"):
            crashes.append((r["seed"], r["crash"]))
            continue
        unmodelled += [(r["seed"], u) for u in r["unmodelled"]]
        for k, v in r["counts"].items():
            ctx.count(k, v)
        for c in r["cases"]:
            cases.append((c["input"], c["output"]))
            case_src.append((r["seed"], c["label"]))
            nontrivial = "[1;" in c["output"] and ";10" in c["output"] and ";11;" in c["output"] and (
                c["label"] == "A" or "XAdv" in c["input"] or "XGetAt" in c["input"])
            ctx.case(c["input"], nontrivial=nontrivial,
                     sample=dict(seed=r["seed"], run=c["label"], script_actions=c["n_acts"],
                                 history_head=[list(map(str, d)) for d in r["history"][4:9]]) if len(ctx.samples) < 3 else None)
        for f in r["failures"]:
            first_fail.setdefault(f["kind"], (r["seed"], f))
    ctx.obligation("harness:no-crash", not crashes, crashes[0][1] if crashes else "")
    ctx.obligation("trace:every-storage-call-is-modelled", not unmodelled, repr(unmodelled[:3]))

    # batches of <= 48 shard files, so that every batch has its own time budget on a loaded machine
    bad, failed_eval = [], False
    per = 40 * 48
    for k in range(0, len(cases), per):
        b = ctx.diff_cases("c13b%d" % (k // per), HEADER, "run_script", cases[k:k + per], lambda s: s, lambda s: s, "eq_llN", shard=40)
        if b is None:
            failed_eval = True
            break
        bad += [k + i for i in b]
    if failed_eval:
        bad = None
    if bad is not None:
        ctx.obligation("correspondence:storage-calls-and-cache-state", not bad,
                       "" if not bad else "model differs from the implementation on %d of %d scripts, first: pair seed %r run %s"
                       % (len(bad), len(cases), case_src[bad[0]][0], case_src[bad[0]][1]))
        if bad:
            seed, label = case_src[bad[0]]
            ctx.extra["first_disagreement"] = explain(ctx, seed, label, length)
    ctx.extra["pairs"] = len(results)
    ctx.extra["scripts_compared"] = len(cases)

    # monitors: every kind of failure yields one violation with a replay
    for kind, (seed, f) in sorted(first_fail.items()):
        ctx.violation("C13 %s (pair seed %d, run %s): request %r" % (kind, seed, f["run"], f["request"]),
                      dict(pair_seed=seed, length=length, failure=f,
                           note="replay: ./check C13 --replay <this file> re-runs the pair and prints the differing responses"),
                      signature=None)

    storage_level(ctx)
    hook_schedule_probe(ctx)
    two_reader_probe(ctx)
    key_function_check(ctx)
    equal_stat_probe(ctx)

    # a broken correspondence with no monitor failure: look for a failing input around the disagreeing pairs
    if bad and not ctx.violations:
        search(ctx, sorted({case_src[b][0] for b in bad})[:6], length)


def corpus_seeds():
    p = os.path.join(core.VERIF, "checks", "corpus_C13.json")
    if os.path.exists(p):
        with open(p) as f:
            return list(json.load(f).get("pair_seeds", []))
    return []


def explain(ctx, seed, label, length):
    """Re-run the pair in-process and locate the first script action where model and implementation differ."""
    r = _one(seed, length)
    for c in r["cases"]:
        if c["label"] != label:
            continue
        out = ctx.coq_show(HEADER, "let m := run_script %s in let i := first_diff m %s 0 in (i, nth (N.to_nat i) m [])"
                           % (c["input"], c["output"]))
        import re
        m = re.search(r"=\s*\((\d+)", out)
        i = int(m.group(1)) if m else -1
        return dict(pair_seed=seed, run=label, action_index=i,
                    actions=c["acts"][max(0, i - 6):i + 1] if i >= 0 else None,
                    implementation=c["obs"][i] if 0 <= i < len(c["obs"]) else None, model=out[-400:])
    return None


def search(ctx, seeds, length):
    """Time-boxed search for a client-visible failure near disagreeing pairs (longer histories, more manipulation)."""
    jobs = [(s * 7 + k, length + 30) for s in seeds for k in range(ctx.n(6, 40))]
    with concurrent.futures.ProcessPoolExecutor(max_workers=14) as ex:
        for r in ex.map(_pair, jobs, chunksize=2):
            for f in r.get("failures", []):
                ctx.violation("C13 %s (search, pair seed %d): request %r" % (f["kind"], r["seed"], f["request"]),
                              dict(pair_seed=r["seed"], length=length + 30, failure=f))
                return


# ---------------------------------------------------------------------------------- storage-level probes
def storage_level(ctx):
    """Small-scope exhaustive probe directly on Collection._get: for every (key mode, location, lock mode) and every
    kind of entry under the name (none, current, older content of the same name, entry of the other mode, of another
    version, unreadable) the answer must be the cold derivation of the file, and the real hit/miss decision is the
    model's.  Also the re-check under the cache lock and the documented stat-mode risk."""
    from vlib import x_c13 as X
    import itertools
    X.install()
    cases, probe_failed, observations = [], [], {}
    n = 0
    X.STOCK[0] = "utf-8"
    for stat, sub, lk in itertools.product((0, 1), (0, 1, 2), ("r", "w")):
        dic = X.Dict()
        cfg = dict(stat=stat, sub=sub, ver=0, skip=1)
        run = X.Run(dic, cfg, "S")
        try:
            st = run.request("MKCALENDAR", "/u/cal1/")[0]
            assert st == 201, st
            # two versions of one name, same size
            run.request("PUT", "/u/cal1/a.ics", X.item_body("VCALENDAR", "a", 0))
            blobs = {}
            p = run.entry_path(sub, "u/cal1", "a.ics")
            blobs["old"] = open(p, "rb").read()
            run.request("PUT", "/u/cal1/a.ics", X.item_body("VCALENDAR", "a", 1))
            blobs["cur"] = open(p, "rb").read()
            run.reconfigure(dict(cfg, stat=1 - stat))
            run.request("GET", "/u/cal1/a.ics")
            blobs["othermode"] = open(p, "rb").read()
            run.reconfigure(dict(cfg, ver=1))
            run.request("GET", "/u/cal1/a.ics")
            blobs["otherver"] = open(p, "rb").read()
            run.reconfigure(cfg)
            blobs["garbage"] = b"garbage"
            c, h = dic.coll("u/cal1"), dic.href("a.ics")
            with open(os.path.join(run.root, "u/cal1/a.ics"), "rb") as f:
                cold = X.cold_derive("VCALENDAR", f.read())
            for kind in ("none", "cur", "old", "othermode", "otherver", "garbage"):
                if kind == "none":
                    run.adv(("drop", sub, c, h))
                else:
                    run.adv(("plant", sub, c, h, run.entry_code(blobs[kind]), blobs[kind]))
                r = probe_get(run, "u/cal1", "a.ics", lk)
                n += 1
                ctx.count("probe:%s" % kind)
                ctx.case(("probe", stat, sub, lk, kind), nontrivial=True)
                if r != cold and not probe_failed:
                    probe_failed.append(kind)
                    ctx.violation("C13 storage probe: _get with a %s entry under the name answers %r instead of the file's derivation"
                                  % (kind, r and r[:2]), dict(stat=stat, sub=sub, lock=lk, entry=kind,
                                                              note="PUT a.ics twice (same size), plant the entry named, call Collection._get"))
            # the re-check: somebody stores the right entry while we wait for the cache lock
            run.adv(("drop", sub, c, h))
            run.interfere = dict(c=c, h=h, advs=[("plant", sub, c, h, run.entry_code(blobs["cur"]), blobs["cur"])])
            r = probe_get(run, "u/cal1", "a.ics", lk)
            if r != cold and not probe_failed:
                probe_failed.append("interference")
                ctx.violation("C13 storage probe: re-check under the cache lock answers %r" % (r and r[:2],),
                              dict(stat=stat, sub=sub, lock=lk, entry="interference"))
            # a write fault (disk full: nothing / half of the pickle reaches the file) while _get stores the entry after
            # a miss: that request may fail, the next one must answer the file's derivation again
            for fk in ("before", "partial"):
                run.adv(("drop", sub, c, h))
                run.set_cache_writable(False, fk)
                r1 = probe_get(run, "u/cal1", "a.ics", lk)
                run.set_cache_writable(True)
                r = probe_get(run, "u/cal1", "a.ics", lk)
                n += 1
                ctx.count("probe:fault-at-store-%s" % fk)
                if (r1 != cold or r != cold) and not probe_failed:
                    probe_failed.append("fault")
                    ctx.violation("C13 storage probe: the cache entry is missing and can not be written (ENOSPC, %s): _get answers %r, "
                                  "and once the cache is writable again %r, instead of the file's derivation" % (
                                      fk, r1 if isinstance(r1, str) else (r1 and r1[:2]), r if isinstance(r, str) else (r and r[:2])),
                                  dict(stat=stat, sub=sub, lock=lk, entry="write fault at _store_item_cache: " + fk,
                                       note="drop the entry, make pickle.dump in cache.py raise ENOSPC during Collection._get, call _get again"))
            # observation (outside the property, recorded in the evidence): entry files nobody writes
            for name, blob in (("empty-file", b""), ("pickle-of-an-int", pickle.dumps(5))):
                run.adv(("plant", sub, c, h, run.entry_code(blob), blob))
                r = probe_get(run, "u/cal1", "a.ics", lk)
                observations.setdefault(name, set()).add(r if isinstance(r, str) else ("served" if r == cold else "other"))
            run.adv(("drop", sub, c, h))
            # same size, same mtime_ns, other bytes (cp -p / rsync -t): new content when keyed by hash;
            # in mtime+size mode the old entry is served (C13_stat_assumption_needed) -- compared with the model only
            run.ext_edit("u/cal1", "VCALENDAR", "a.ics", X.ext_body("VCALENDAR", "a", 7), run.tick())
            r0 = probe_get(run, "u/cal1", "a.ics", lk)
            fp = os.path.join(run.root, "u/cal1/a.ics")
            st_ = os.stat(fp)
            data = X.ext_body("VCALENDAR", "a", 8, st_.st_size)
            assert data is not None and len(data) == st_.st_size and data != open(fp, "rb").read()
            run.ext_edit("u/cal1", "VCALENDAR", "a.ics", data, st_.st_mtime_ns, force=True)
            r = probe_get(run, "u/cal1", "a.ics", lk)
            n += 1
            ctx.count("probe:same-stat-edit")
            new_cold = X.cold_derive("VCALENDAR", data)
            if stat == 0 and r != new_cold and not probe_failed:
                probe_failed.append("same-stat")
                ctx.violation("C13 storage probe: hash keying configured, item file replaced by other bytes of the same size with the "
                              "same mtime_ns: _get answers %r instead of the new file's derivation" % (r and r[:2],),
                              dict(stat=stat, sub=sub, lock=lk, entry="same size, same mtime_ns, other bytes",
                                   note="GET a.ics; replace the file keeping size and os.utime(ns) stamps; GET again"))
            if stat == 1:
                ctx.count("probe:same-stat-edit-stale-as-modelled", int(r == r0))
            run.dump()
            cases.append((X.g_input((sorted(dic.table.items()), run.acts)), X.g_output(run.obs)))
        finally:
            run.close()
    ctx.extra["observations_outside_the_property"] = {
        k: "Collection._get with such an entry file under the name: " + ", ".join(sorted(v)) for k, v in observations.items()}
    bad = ctx.diff_cases("c13probe", HEADER, "run_script", cases, lambda s: s, lambda s: s, "eq_llN", shard=4)
    if bad is not None:
        ctx.obligation("correspondence:storage-probes", not bad, "" if not bad else "probe scripts %r differ" % bad)
    ctx.extra["storage_probes"] = n


HOOK_SH = """#!/bin/sh
# storage hook of the probe; cwd = filesystem_folder.  Armed once: replaces an item file like a sync script would.
[ -e arm ] || exit 0
rm -f arm
# wait (at most 0.4 s) for a reader that has read the OLD bytes -- there can be none while the storage is locked
i=0
while [ ! -e flag ] && [ $i -lt 20 ]; do sleep 0.02; i=$((i+1)); done
cp new_a.ics collection-root/u/cal1/a.ics
touch hook_done
"""


def hook_schedule_probe(ctx):
    """The external editor IS the storage hook (documented use: a script run after every change, while the storage is
    locked exclusively).  mtime+size keying, two threads: a PUT of b.ics starts the hook, which replaces a.ics; a GET of
    a.ics is started while the hook runs and is paused between reading the file and stat-ing it (get.py reads, then
    stats).  While the hook runs under the exclusive lock the GET cannot have read the old bytes; afterwards the item
    must be served as the cold derivation of the new file, identically with the cache kept and deleted."""
    import shutil
    import threading
    import time
    from vlib import impl, x_c13 as X
    from radicale.storage.multifilesystem import get as get_mod
    X.install()
    X.CUR[0] = None
    X.STOCK[0] = "utf-8"
    for sub in (0, 1):
        srv = impl.Server({"storage": {"use_mtime_and_size_for_item_cache": "True", "hook": "sh hook.sh",
                                       "use_cache_subfolder_for_item": str(bool(sub))},
                           "auth": {"type": "none"}, "rights": {"type": "authenticated"}})
        folder = srv.folder
        try:
            with open(os.path.join(folder, "hook.sh"), "w") as f:
                f.write(HOOK_SH)
            new_bytes = X.ext_body("VCALENDAR", "a", 4) + b""
            with open(os.path.join(folder, "new_a.ics"), "wb") as f:
                f.write(new_bytes)
            assert srv.request("MKCALENDAR", "/u/cal1/", login="u:")[0] == 201
            assert srv.request("PUT", "/u/cal1/a.ics", data=X.item_body("VCALENDAR", "a", 1), login="u:")[0] == 201
            assert srv.request("GET", "/u/cal1/a.ics", login="u:")[0] == 200
            open(os.path.join(folder, "arm"), "w").close()
            res = {}

            def wait_for(pred, timeout):
                end = time.monotonic() + timeout
                while time.monotonic() < end and not pred():
                    time.sleep(0.01)
                return pred()

            class Os:
                armed = True

                def __getattr__(self, n):
                    return getattr(os, n)

                def stat(self, path, *a, **k):
                    if self.armed and os.path.basename(str(path)) == "a.ics":
                        self.armed = False
                        open(os.path.join(folder, "flag"), "w").close()     # "I have read the file"
                        wait_for(lambda: os.path.exists(os.path.join(folder, "hook_done")), 3)
                    return os.stat(path, *a, **k)

            wt = threading.Thread(target=lambda: res.__setitem__(
                "put", srv.request("PUT", "/u/cal1/b.ics", data=X.item_body("VCALENDAR", "b", 2), login="u:")))
            wt.start()
            started = wait_for(lambda: not os.path.exists(os.path.join(folder, "arm")), 10)
            get_mod.os = Os()
            try:
                rt = threading.Thread(target=lambda: res.__setitem__("get", srv.request("GET", "/u/cal1/a.ics", login="u:")))
                rt.start()
                rt.join()
                wt.join()
            finally:
                get_mod.os = os
            ctx.obligation("hook-probe:ran", started and res.get("put", (0,))[0] == 201 and os.path.exists(os.path.join(folder, "hook_done")),
                           "hook did not run: %r" % (res.get("put"),))
            cold = X.cold_derive("VCALENDAR", open(os.path.join(folder, "collection-root/u/cal1/a.ics"), "rb").read())
            kept = srv.request("GET", "/u/cal1/a.ics", login="u:")
            for root, dirs, _files in os.walk(folder):
                for dn in list(dirs):
                    if dn in (".Radicale.cache", "collection-cache"):
                        shutil.rmtree(os.path.join(root, dn), ignore_errors=True)
                        dirs.remove(dn)
            fresh = srv.request("GET", "/u/cal1/a.ics", login="u:")
            ctx.count("probe:hook-edits-item-while-get-races")
            ctx.case(("hook-probe", sub), nontrivial=True)

            def view(r):
                return (r[0], r[1].get("ETag"), r[2].decode("utf-8", "replace"))
            if view(kept) != view(fresh) or cold is None or view(kept) != (200, cold[1], cold[2]):
                ctx.violation("C13 hook probe: item file replaced by the storage hook while a GET of it was in progress "
                              "(mtime+size keying): afterwards GET answers etag %s with the cache kept, %s with the cache deleted, "
                              "cold derivation of the file %s" % (kept[1].get("ETag"), fresh[1].get("ETag"), cold and cold[1]),
                              dict(scenario="hook replaces a.ics during PUT b.ics; GET a.ics paused between read and stat",
                                   cache_subfolder=bool(sub), during=res.get("get", (None,))[0],
                                   kept=view(kept)[:2], deleted=view(fresh)[:2], cold=cold and cold[1],
                                   note="./check C13 re-runs this probe deterministically (checks/C13.py hook_schedule_probe)"))
                break
        finally:
            srv.close()


def two_reader_probe(ctx):
    """"Deleted at any point" includes "while two readers are rebuilding": the cache folders are removed, two threads read
    the same collection under the shared lock and meet between the isdir test and the directory creation of
    _makedirs_synced (rendezvous in an `os` proxy for base.py on mkdir / makedirs of a `.Radicale.cache` path).
    Both answers must equal the answer given with the cache kept."""
    import shutil
    import threading
    import time
    from vlib import impl, x_c13 as X
    from radicale.storage.multifilesystem import base as base_mod
    X.install()
    X.CUR[0] = None
    X.STOCK[0] = "utf-8"
    for stat, sub, what, stype in ((0, 0, "propfind", "multifilesystem"), (1, 1, "get", "multifilesystem"),
                                  (0, 1, "propfind", "multifilesystem"),
                                  # in-process locks: the second reader reaches the per-collection cache lock while the
                                  # first one (held at the rendezvous until the time-out) rebuilds an entry
                                  (0, 0, "propfind", "multifilesystem_nolock"), (1, 1, "get", "multifilesystem_nolock")):
        srv = impl.Server({"storage": {"type": stype, "use_mtime_and_size_for_item_cache": str(bool(stat)),
                                       "use_cache_subfolder_for_item": str(bool(sub))},
                           "auth": {"type": "none"}, "rights": {"type": "authenticated"}})
        try:
            assert srv.request("MKCALENDAR", "/u/cal1/", login="u:")[0] == 201
            for nme, k in (("a", 1), ("b", 5)):
                assert srv.request("PUT", "/u/cal1/%s.ics" % nme, data=X.item_body("VCALENDAR", nme, k), login="u:")[0] == 201

            def read():
                if what == "get":
                    st, hd, body = srv.request("GET", "/u/cal1/a.ics", login="u:")
                    return X.canon_response("GET", "/u/cal1/a.ics", st, hd, body)
                st, hd, body = srv.request("PROPFIND", "/u/cal1/", data=X.PROPFIND, login="u:", HTTP_DEPTH="1")
                return X.canon_response("PROPFIND", "/u/cal1/", st, hd, body)
            kept = read()
            for root, dirs, _files in os.walk(srv.folder):
                for dn in list(dirs):
                    if dn in (".Radicale.cache", "collection-cache"):
                        shutil.rmtree(os.path.join(root, dn), ignore_errors=True)
                        dirs.remove(dn)
            barrier = threading.Barrier(2)
            met = []
            seen = threading.local()

            class Os:
                def __getattr__(self, n):
                    return getattr(os, n)

                def _meet(self, path):
                    if ".Radicale.cache" in str(path) and not getattr(seen, "done", False):
                        seen.done = True                      # once per thread: the first cache folder it creates
                        try:
                            barrier.wait(timeout=1.0 if stype == "multifilesystem" else 0.4)
                            met.append(1)
                        except threading.BrokenBarrierError:
                            pass

                def mkdir(self, path, *a, **k):
                    self._meet(path)
                    return os.mkdir(path, *a, **k)

                def makedirs(self, path, *a, **k):
                    self._meet(path)
                    return os.makedirs(path, *a, **k)
            res = {}
            base_mod.os = Os()
            try:
                ts = [threading.Thread(target=lambda i=i: res.__setitem__(i, read()), daemon=True) for i in (1, 2)]
                for t in ts:
                    t.start()
                deadline = time.monotonic() + 20
                for t in ts:
                    t.join(max(0.1, deadline - time.monotonic()))
                hung = [i for i, t in zip((1, 2), ts) if t.is_alive()]
            finally:
                base_mod.os = os
            ctx.count("probe:two-readers-rebuild-after-cache-removal")
            ctx.count("probe:two-readers-met-before-mkdir", int(len(met) == 2))
            ctx.case(("two-readers", stat, sub, what, stype), nontrivial=True)
            if hung:
                ctx.violation("C13 two-reader probe (storage type %s): cache folders removed, two concurrent %s of one collection: "
                              "reader %d got NO answer within 20 s; with the cache kept the request answers %s" % (
                                  stype, what.upper(), hung[0], kept["status"]),
                              dict(scenario="rm -r .Radicale.cache; 2 threads %s of /u/cal1/; the first is held while it rebuilds an "
                                            "entry (inside the per-collection cache lock), the second reaches that lock" % what,
                                   storage_type=stype, stat=bool(stat), cache_subfolder=bool(sub), hung_readers=hung,
                                   statuses={i: (res.get(i) or {}).get("status") for i in (1, 2)}, kept_status=kept["status"],
                                   note="./check C13 re-runs this probe deterministically (checks/C13.py two_reader_probe)"))
                break
            bad = [i for i in (1, 2) if res.get(i) != kept]
            if bad:
                ctx.violation("C13 two-reader probe: cache folders removed, two concurrent %s of one collection under the shared lock "
                              "(both saw the cache folder missing before either created it): reader %d answers %s, with the cache kept the "
                              "answer was %s" % (what.upper(), bad[0], (res.get(bad[0]) or {}).get("status"), kept["status"]),
                              dict(scenario="rm -r .Radicale.cache; 2 threads %s; rendezvous between isdir and mkdir/makedirs in "
                                            "_makedirs_synced" % what, stat=bool(stat), cache_subfolder=bool(sub),
                                   statuses={i: (res.get(i) or {}).get("status") for i in (1, 2)}, kept_status=kept["status"],
                                   note="./check C13 re-runs this probe deterministically (checks/C13.py two_reader_probe)"))
                break
        finally:
            srv.close()


def equal_stat_probe(ctx):
    """DIFFERENT names whose files have the same size and the same mtime_ns (a restore with preserved times, a coarse clock):
    in mtime+size mode their cache keys are equal, yet every name must be served with its own content and ETag, with the
    cache kept and after it was deleted.  (No MOVE between the names: the per-file hypothesis of the mode -- an item file's
    size or mtime changes whenever its bytes change -- holds for each name; the history-wide hypothesis stat_ok of the Coq
    theorems is not needed here, so this is a direct monitor beside the model correspondence.)"""
    import shutil
    from vlib import impl
    t0 = 1_600_000_000_123_456_789
    for sub in (False, True):
        for mode in (True, False):
            conf = {"auth": {"type": "none"}, "rights": {"type": "authenticated"},
                    "storage": {"use_mtime_and_size_for_item_cache": str(mode), "use_cache_subfolder_for_item": str(sub)}}
            with impl.Server(conf=conf) as srv:
                srv.mkcol("/u/")
                srv.mkcalendar("/u/c/")
                names = [("a.ics", "ua"), ("b.ics", "ub"), ("c.ics", "uc")]
                for nm, uid in names:
                    st, _, _ = srv.put("/u/c/" + nm, impl.event(uid, summary="s" + uid[1], extra="DTSTAMP:20130101T000000Z\r\n"), login="u:")
                    assert st == 201, st
                folder = os.path.join(srv.folder, "collection-root", "u", "c")
                sizes = {os.path.getsize(os.path.join(folder, nm)) for nm, _ in names}

                def read_all():
                    out = {}
                    for nm, uid in names:
                        st, h, b = srv.request("GET", "/u/c/" + nm, login="u:")
                        out[nm] = (st, h.get("ETag"), b)
                    stp, ms = srv.propfind("/u/c/", depth="1", props=("D:getetag",), login="u:")
                    out["listing"] = sorted((hh, v["D:getetag"][1].text) for hh, v in ms.items()
                                            if isinstance(v, dict) and "D:getetag" in v and hh != "/u/c/") if stp == 207 else stp
                    return out
                first = read_all()                       # entries written at upload / first read
                for nm, _ in names:
                    os.utime(os.path.join(folder, nm), ns=(t0, t0))
                reads = [read_all(), read_all()]         # same size, same mtime now: entries re-keyed, then hit
                for d in (os.path.join(folder, ".Radicale.cache"), os.path.join(srv.folder, "collection-cache")):
                    shutil.rmtree(d, ignore_errors=True)
                reads.append(read_all())                 # cold
                ctx.case(("equal-stat", sub, mode), nontrivial=len(sizes) == 1)
                ctx.count("equal-stat-probe:%s" % ("one-size" if len(sizes) == 1 else "sizes-differ"))
                for k, r in enumerate(reads):
                    what = None
                    for nm, uid in names:
                        st, etag, body = r[nm]
                        if st != 200 or ("UID:" + uid).encode() not in body or r[nm] != first[nm]:
                            what = "GET /u/c/%s is answered %s ETag %s with %s (first read: ETag %s)" % (
                                nm, st, etag, "the content of another item" if st == 200 and ("UID:" + uid).encode() not in body
                                else "another answer than at the first read", first[nm][1])
                            break
                    if what is None and r["listing"] != first["listing"]:
                        what = "PROPFIND Depth 1 lists %r, at the first read %r" % (r["listing"], first["listing"])
                    if what:
                        ctx.violation("C13 equal size and mtime (read %d, mtime+size mode %s, cache subfolder %s): %s -- not what is stored under "
                                      "that name" % (k, mode, sub, what),
                                      dict(mode=mode, subfolder=sub, names=names, mtime_ns=t0, read=k,
                                           note="three events of equal size are PUT, their files get one mtime_ns by os.utime, then every "
                                                "name is read twice with the cache kept and once after the cache folders were deleted"))
                        return


def key_function_check(ctx):
    """The two key functions of cache.py are exactly the ones the model's free constructors stand for: SHA-256 over
    CACHE_VERSION + bytes (hex), and CACHE_VERSION + "size=<size>;mtime=<mtime_ns>".  When the content key is something
    else, a time-boxed birthday search over same-size bodies looks for two contents with one key and shows the stale answer."""
    import hashlib
    import time
    from vlib import x_c13 as X
    import radicale.storage as rstorage
    from radicale.storage import multifilesystem as mfs
    X.install()
    X.STOCK[0] = "utf-8"
    ver = rstorage.CACHE_VERSION
    samples = [b"", b"x", b"BEGIN:VCALENDAR\r\n", bytes(range(256)) * 3]
    ok_hash = all(mfs.Collection._item_cache_hash(b) == hashlib.sha256(ver + b).hexdigest() for b in samples)
    ok_stat = all(mfs.Collection._item_cache_mtime_and_size(sz, mt) == ver.decode() + "size=%d;mtime=%d" % (sz, mt)
                  for sz, mt in ((0, 0), (187, 10 ** 18 + 11), (5, 1759261234123456789)))
    ctx.obligation("cache-key:hash-mode-is-SHA-256-of-CACHE_VERSION-and-file-bytes", ok_hash,
                   "" if ok_hash else "_item_cache_hash(b'x') = %r" % (mfs.Collection._item_cache_hash(b"x"),))
    ctx.obligation("cache-key:stat-mode-is-CACHE_VERSION-size-mtime_ns", ok_stat,
                   "" if ok_stat else "_item_cache_mtime_and_size(187, 11) = %r" % (mfs.Collection._item_cache_mtime_and_size(187, 11),))
    if ok_hash:
        return
    # search: two same-size valid objects with the same content key
    import random
    import string
    srng, alphabet = random.Random(ctx.seed), string.ascii_letters + string.digits
    t0, seen_keys, pair = time.time(), {}, None
    i = 0
    while time.time() - t0 < ctx.n(20, 120) and i < 3000000:
        # 14 random letters: enough independent bits for a birthday collision of any key of <= ~40 bits (a counter would not
        # do: CRCs are linear, and digits vary in 4 bits only)
        pad = "".join(alphabet[srng.randrange(62)] for _ in range(14))
        body = X.impl.event("a", summary="collide", extra="DESCRIPTION:%s\r\n" % pad + X.STAMP).encode()
        k = mfs.Collection._item_cache_hash(body)
        if k in seen_keys and seen_keys[k] != body:
            pair = (seen_keys[k], body)
            break
        seen_keys[k] = body
        i += 1
    ctx.extra["weak_key_search"] = dict(candidates=i, found=pair is not None)
    if pair is None:
        return
    run = X.Run(X.Dict(), dict(stat=0, sub=0, ver=0, skip=1), "W")
    try:
        assert run.request("MKCALENDAR", "/u/cal1/")[0] == 201
        run.ext_edit("u/cal1", "VCALENDAR", "a.ics", pair[0], run.tick())
        g1 = run.request("GET", "/u/cal1/a.ics")
        run.ext_edit("u/cal1", "VCALENDAR", "a.ics", pair[1], run.tick())
        g2 = run.request("GET", "/u/cal1/a.ics")
        cold = X.cold_derive("VCALENDAR", pair[1])
        if g2[0] != 200 or g2[2].decode() != cold[2] or g2[1].get("ETag") != cold[1]:
            ctx.violation("C13 weak content key: two item contents of equal size have the same cache key %r; after replacing the file "
                          "by the second one (under the storage lock, new mtime) GET still answers the first" %
                          (mfs.Collection._item_cache_hash(pair[1]),),
                          dict(first=pair[0].decode(), second=pair[1].decode(), served_etag=g2[1].get("ETag"), cold_etag=cold[1],
                               note="write first as /u/cal1/a.ics, GET, write second, GET"))
    finally:
        run.close()


def probe_get(run, collpath, name, lk):
    """Call the real Collection._get under the storage lock in mode lk, traced."""
    from vlib import x_c13 as X
    storage = run.srv.application._storage
    X.CUR[0] = run
    run._lk = None
    with storage.acquire_lock(lk):
        coll = next(iter(storage.discover("/" + collpath + "/")))
        run.tracing = True
        try:
            item = coll._get(name)
        except Exception as e:
            return "raised " + type(e).__name__
        finally:
            run.tracing = False
            run.interfere = None
    return None if item is None else run.item_tuple(item)


def replay(ctx, path):
    data = json.load(open(path))
    rp = data.get("replay", {})
    if "pair_seed" not in rp:
        print(json.dumps(data, indent=1)[:4000])
        return 0
    r = _one(rp["pair_seed"], rp.get("length", 42))
    print("history:", json.dumps(r["history"], default=str)[:3000])
    print("failures:", json.dumps(r["failures"], indent=1, default=str)[:6000])
    return 1 if r["failures"] else 0
