"""C04 -- Built-in rights back-ends grant exactly the documented permissions.

1. proof: Props/C04.v.  The three simple back-ends and `intersect` are proved about the definitions REGENERATED
   from radicale/rights/*.py (tie T, Gen/RightsGen.v).  from_file: theorems about Model/FromFile.v + Model/Regex.v
   (first deciding section wins; every escaped character is a literal token; fullmatch = the declarative language).
2. correspondence (tie K), the model evaluated inside Coq (vm_compute):
   (a) simple back-ends: the real Rights classes (auth type none vs htpasswd) vs the regenerated definitions on
       exhaustive small (user, path) + random;
   (b) regex model vs Python's re.fullmatch (result AND groups) on generated (pattern, string) pairs;
       re.escape and str.format models vs Python;
   (c) the real from_file Rights.authorization vs the model on generated rights files x users x paths.
3. monitors on the implementation: documentation-level oracle of the simple back-ends, the example rule sets of
   /repo/rights against the plugin they document, and an independent "first full match wins with literal
   substitution" oracle for from_file (holes compared by string equality, no re.escape / str.format).
"""
import collections
import itertools
import json
import os
import re
import sys

from vlib import core, x_C04 as X
from vlib.core import enc_str, enc_bool

SIG_OPTGROUP = "C04: from_file raises TypeError when a group of the user pattern did not take part in the match"

SIMPLE = ["authenticated", "owner_only", "owner_write"]
ALPHA = ["a", "b", "/", "."]
SPECIAL_USERS = ["", "tmp", "tmp2", "user@domain.test", "Tmp", "TMP", ".*", "a|b", "(", "a/b", ".", "..", "é", "a b", "tmp\n", "/a", "a/"]
SPECIAL_PATHS = ["/", "/tmp", "/tmp/", "/tmp2/", "/tmp/cal/", "/tmp/cal", "/tmp/cal/e.ics", "/Tmp/", "/user@domain.test/", "/.*/", "/a|b/x/",
                 "/(/", "/é/é/", "/a b/", "/tmp\n/", "/a/b/c/d/e", "/tmp/cal/e.ics/", "/tmp2/cal/"]


def simple_backends(auth_type):
    from radicale import config, rights
    out = {}
    for kind in SIMPLE:
        conf = config.load()
        conf.update({"auth": {"type": auth_type}, "rights": {"type": kind}}, "verif", privileged=True)
        out[kind] = rights.load(conf)
    return out


def small_strings(alpha, maxlen):
    for n in range(maxlen + 1):
        for t in itertools.product(alpha, repeat=n):
            yield "".join(t)


def run(ctx):
    ctx.rule = ("simple back-ends: (back-end, auth none/real, user, sanitised path), users and raw paths exhaustive over {a b / .} to "
                "length 3/5 plus hostile names; non-trivial = non-root path; distinct by the tuple.  regex: (pattern, subject) from a "
                "pattern grammar (literals, escapes, classes, groups, alternation, greedy/lazy bounded and unbounded repeats) + malformed "
                "stream; non-trivial = pattern has a metacharacter; distinct by the pair.  from_file: (rights file of 1-6 sections, user, "
                "path of depth 0-4); non-trivial = some section is reached whose user pattern matches; distinct by the triple")
    ctx.assumptions += [
        "Python's `re` engine, `re.escape` and `str.format` are libraries: Model/Regex.v is tied to them by correspondence only",
        "regex dialect: no anchors, back-references, look-around, flags, named groups, possessive/atomic constructs, \\x \\u octal escapes; "
        "categories \\d \\w \\s with ASCII subjects only (otherwise the model answers Unsupported and makes no claim)",
        "configparser is not modelled: rights files are rendered from abstract sections and parsed by the real code; values are stripped and contain no '%'",
        "the LDAP `groups` branch of from_file is modelled as disabled (`_user_groups` empty, i.e. every auth back-end except ldap)",
        "pathutils.strip_path's `assert sanitize_path(path) == path` is dropped by the translator: theorems are used on sanitised paths",
        "matcher fuel: proved sufficient (C04_fullmatch_total); the correspondence still treats an out-of-fuel answer of the model as a disagreement",
        "auth types: the rights classes only read configuration.get('auth','type'); every name of auth.INTERNAL_TYPES plus look-alikes of 'none' is "
        "configured without loading the auth back-end",
    ]
    ctx.prove()
    sys.setrecursionlimit(10000)
    mon_fail = {}

    def violation(kind, what, replay, signature=None):
        if kind in mon_fail:
            mon_fail[kind] += 1
            return
        mon_fail[kind] = 1
        ctx.violation(what, dict(kind=kind, **replay), signature=signature)

    # every configuration option a rights back-end reads must be a dimension of this harness
    known_opts = {("auth", "type"), ("rights", "type"), ("rights", "file"), ("logging", "rights_rule_doesnt_match_on_debug")}
    try:
        opts = X.rights_config_options()
    except Exception as e:
        opts = {("?", repr(e))}
    ctx.obligation("glue:config-options-covered", opts <= known_opts,
                   "rights back-ends read configuration options the harness does not vary: %r" % sorted(opts - known_opts))

    # ------------------------------------------------------------------ (a) simple back-ends
    from radicale import pathutils, rights as rights_mod
    users = list(dict.fromkeys(list(small_strings(["a", "b", "/"] if ctx.quick else ALPHA, 3)) + [".", "..", "a.", ".a"] + SPECIAL_USERS))
    raw_paths = list(small_strings(ALPHA, ctx.n(4, 5))) + SPECIAL_PATHS
    paths = list(dict.fromkeys(pathutils.sanitize_path(p) for p in raw_paths))
    for _ in range(ctx.n(60, 400)):
        comps = [ctx.rng.choice(users[1:] + ["cal", "x.ics"]) for _ in range(ctx.rng.randint(0, 4))]
        paths.append(pathutils.sanitize_path("/" + "/".join(comps) + ctx.rng.choice(["", "/"])))
    paths = list(dict.fromkeys(paths))
    cases_a = []
    backends = {False: simple_backends("none"), True: simple_backends("htpasswd")}
    for verify, bk in backends.items():
        for kind in SIMPLE:
            ctx.obligation("glue:_verify_user(%s, auth %s)" % (kind, "enabled" if verify else "none"), bk[kind]._verify_user == verify,
                           "Rights.__init__ does not derive _verify_user from the auth type as modelled")
            for u in users:
                for p in paths:
                    got = bk[kind].authorization(u, p)
                    cases_a.append(((kind, verify, u, p), got))
                    want = X.doc_simple(kind, verify, u, p)
                    ctx.case(("simple", kind, verify, u, p), nontrivial=(p != "/"))
                    if got != want:
                        violation("simple", "%s(auth %s).authorization(%r, %r) = %r, documented: %r" % (
                            kind, "enabled" if verify else "none", u, p, got, want),
                            dict(backend=kind, verify=verify, user=u, path=p, got=got, documented=want))
                    # the four named guarantees, stated directly
                    comps = p.strip("/").split("/") if p.strip("/") else []
                    if verify and not u and got:
                        violation("simple-anon", "anonymous user gets %r from %s on %r" % (got, kind, p), dict(backend=kind, verify=verify, user=u, path=p))
                    if len(comps) >= 3 and got:
                        violation("simple-depth", "%s grants %r below the collection level: %r" % (kind, got, p), dict(backend=kind, verify=verify, user=u, path=p))
                    if verify and comps and comps[0] != u:
                        if kind == "owner_only" and got:
                            violation("simple-foreign", "owner_only grants %r to %r inside the home of %r" % (got, u, comps[0]),
                                      dict(backend=kind, verify=verify, user=u, path=p))
                        if kind == "owner_write" and ("w" in got or "W" in got):
                            violation("simple-write", "owner_write grants %r to %r outside the own home: %r" % (got, u, p),
                                      dict(backend=kind, verify=verify, user=u, path=p))
    ctx.count("cases:simple", len(cases_a))
    auth_type_cases(ctx, users, paths, violation)
    ctx.log("simple back-ends: %d cases on the implementation" % len(cases_a))
    codes = product_cases(ctx, users, paths, cases_a)
    record(ctx, "simple", cases_a, codes)
    ctx.samples.append(dict(kind="simple", backend="owner_only", user="tmp", path="/tmp2/", result=backends[True]["owner_only"].authorization("tmp", "/tmp2/")))

    # intersect: compared as a set of characters
    inter = []
    for _ in range(ctx.n(300, 3000)):
        a = "".join(ctx.rng.choice("RrWwiDdOo") for _ in range(ctx.rng.randint(0, 5)))
        b = "".join(ctx.rng.choice("RrWwiDdOox") for _ in range(ctx.rng.randint(0, 5)))
        inter.append(((a, b), "".join(sorted(rights_mod.intersect(a, b)))))
    hdr = X.HEADER + ("Require RV.Gen.RightsGen.\nDefinition cls_set (exp got : pystr) : N := if forallb (fun c => contains_char c exp) got && "
                      "forallb (fun c => contains_char c got) exp && Nat.eqb (List.length exp) (List.length got) then 0 else 1.\n")
    codes = X.classify_cases(ctx, "c04_inter", "(fun ab => RightsGen.intersect (fst ab) (snd ab))", "cls_set", inter,
                             lambda ab: "(%s, %s)" % (enc_str(ab[0]), enc_str(ab[1])), enc_str, shard=3000, header=hdr)
    record(ctx, "intersect", inter, codes)

    # the example rule sets of /repo/rights document the plugins: they must agree with them (users without newline: '.' excludes it)
    try:
        examples = X.example_rules_from_repo()
    except Exception as e:  # the anchor file changed shape
        examples = {}
        ctx.obligation("monitor:examples-file-parsed", False, repr(e))
    impl = X.FromFileImpl(ctx.scratch())
    n_ex = 0
    for kind in SIMPLE:
        secs = examples.get(kind)
        if not secs:
            ctx.obligation("monitor:example-rules(%s)" % kind, False, "no example sections for %s in %s/rights" % (kind, core.REPO))
            continue
        text = X.render_rules([{k: v for k, v in s.items() if not k.startswith("_")} for s in secs])
        ro = impl.load(text)
        ro_dbg = impl.load(text, True)
        for u in users:
            # '.' excludes "\n"; the request handler refuses user names that are not a safe path component
            # (app/__init__.py: "Refused unsafe username") before any rights back-end is asked
            if "\n" in u or (u and not pathutils.is_safe_path_component(u)):
                continue
            for p in paths[:ctx.n(160, 4000)]:
                n_ex += 1
                a, _ = X.py_authorization(ro_dbg if n_ex % 2 else ro, u, p)
                b = backends[True][kind].authorization(u, p)
                if a != b:
                    violation("example-rules", "example rules for %s in /repo/rights give %r, the plugin gives %r (user %r, path %r, [logging] "
                              "rights_rule_doesnt_match_on_debug = %r)" % (kind, a, b, u, p, bool(n_ex % 2)),
                              dict(backend=kind, rules=secs, user=u, path=p, from_file=a, plugin=b, rule_debug=bool(n_ex % 2)))
    ctx.count("cases:example-rules", n_ex)
    ctx.log("example rules: %d" % n_ex)
    ctx.evaluations += n_ex

    # ------------------------------------------------------------------ (b) regex / escape / format
    pairs = X.regex_cases(ctx.rng, ctx.n(20000, 120000))
    exps = X.py_fullmatch_many(pairs)
    cases_b = [(ps, e) for ps, e in zip(pairs, exps) if e != "SKIP"]
    ctx.log("regex: %d pairs evaluated by Python" % len(cases_b))
    ctx.count("regex:skipped-python-timeout", len(pairs) - len(cases_b))
    for (p, s), e in cases_b:
        ctx.case(("re", p, s), nontrivial=any(c in p for c in "()[]{}*+?|\\."))
        ctx.count("regex:" + ("error" if e == "ERR" else "nomatch" if e is None else "match%s" % ("+groups" if e else "")))
    codes = X.classify_cases(ctx, "c04_re", "(fun ps => fullmatch_py (fst ps) (snd ps))", "cls_fm", cases_b,
                             lambda ps: "(%s, %s)" % (enc_str(ps[0]), enc_str(ps[1])), X.enc_fm, shard=ctx.n(640, 800))
    record(ctx, "regex", cases_b, codes)
    ctx.samples.append(dict(kind="regex", pattern="(a*)*", subject="aa", python=repr(X.py_fullmatch("(a*)*", "aa"))))

    ctx.log("regex correspondence done")
    esc = [chr(i) for i in range(0, 130)] + X.USERS + X.COMPONENTS + ["".join(ctx.rng.choice(X.SUBJECT_ALPHA + X.META) for _ in range(ctx.rng.randint(0, 8)))
                                                                        for _ in range(ctx.n(400, 4000))]
    cases_e = [(s, re.escape(s)) for s in esc]
    for s, e in cases_e:
        ctx.case(("escape", s), nontrivial=(e != s))
        # monitor: the escaped text, used as a pattern, matches exactly the original text
        try:
            if re.fullmatch(e, s) is None or re.fullmatch(e, s + "x") or (s and re.fullmatch(e, s[:-1])):
                violation("escape", "re.escape(%r) does not denote exactly that string" % s, dict(string=s))
        except re.error as err:
            violation("escape", "re.escape(%r) is not a valid pattern: %s" % (s, err), dict(string=s))
    codes = X.classify_cases(ctx, "c04_esc", "escape", "cls_str", cases_e, enc_str, enc_str, shard=3000)
    record(ctx, "escape", cases_e, codes)

    fm = X.fmt_cases(ctx.rng, ctx.n(1500, 15000))
    cases_f = [(c, X.py_format(*c)) for c in fm]
    for c, e in cases_f:
        ctx.case(("format",) + c, nontrivial=("{" in c[0] or "}" in c[0]))
    codes = X.classify_cases(ctx, "c04_fmt", "(fun c => format (fst (fst c)) (snd (fst c)) (snd c))", "cls_res", cases_f,
                             X.enc_fmt_in, X.enc_res_str, shard=1500)
    record(ctx, "format", cases_f, codes)

    # ------------------------------------------------------------------ (c) from_file
    for tag, nfiles, optg in (("from_file", ctx.n(380, 6000), False), ("from_file_optgroup", ctx.n(60, 600), True)):
        cases_c, kinds = [], collections.Counter()
        oracle_n = 0
        for i in range(nfiles):
            hostile = ctx.rng.random() < 0.25
            rules = X.gen_ff_file(ctx.rng, hostile, optional_groups=optg)
            if optg and not any(s.get("user") in ("(bob)|(alice)", "(a)?.*") for s in rules):
                rules[ctx.rng.randrange(len(rules))]["user"] = ctx.rng.choice(["(bob)|(alice)", "(a)?.*"])
            text = X.render_rules(rules, ctx.rng)
            rule_debug = i % 2 == 1        # [logging] rights_rule_doesnt_match_on_debug: must only change the log
            try:
                ro = impl.load(text, rule_debug)
            except Exception as e:
                kinds["load:" + type(e).__name__] += 1
                continue
            for user, path in X.gen_ff_queries(ctx.rng, rules, 8):
                v, kind = X.py_authorization(ro, user, path)
                kinds[kind] += 1
                if kind == "none-group-typeerror":
                    # genuine defect (see notes/C04.md): modelled as fixed, reported with a concrete replay
                    violation("optgroup", "from_file: user %r, path %r: RuntimeError(TypeError) because a group of the user pattern "
                              "did not take part in the match (rules %r)" % (user, path, rules),
                              dict(rules=rules, user=user, path=path, rule_debug=rule_debug), signature=SIG_OPTGROUP)
                    continue
                cases_c.append(((rules, user, path), v))
                reached = v not in ("",)
                ctx.case((tag, text, user, path), nontrivial=reached or any(_user_matches(s, user) for s in rules))
                ctx.count("from_file:" + ("error" if v == "ERR" else "deny" if v == "" else "grant"))
                ctx.count("from_file:rule_debug=%s" % rule_debug)
                o = X.oracle_authorization(rules, user, path)
                if o is not None and v != "ERR":
                    oracle_n += 1
                    if o != v:
                        violation("from_file-oracle", "from_file returns %r for user %r path %r; first full match with literal substitution "
                                  "gives %r (rules %r, [logging] rights_rule_doesnt_match_on_debug = %r)" % (v, user, path, o, rules, rule_debug),
                                  dict(rules=rules, user=user, path=path, got=v, oracle=o, rule_debug=rule_debug))
        ctx.log("%s: %d cases on the implementation" % (tag, len(cases_c)))
        for k, v in kinds.items():
            ctx.count("from_file:exc:" + k, v)
        ctx.count("from_file:oracle-checked", oracle_n)
        codes = X.classify_cases(ctx, "c04_" + tag, "(fun c => authorization (fst (fst c)) (snd (fst c)) (snd c))", "cls_out", cases_c,
                                 X.enc_ff_in, X.enc_outcome, shard=ctx.n(230, 400))
        record(ctx, tag, cases_c, codes)
        if cases_c and len(ctx.samples) < 6:
            (rules, user, path), v = next((c for c in cases_c if c[1] not in ("", "ERR")), cases_c[0])
            ctx.samples.append(dict(kind=tag, rules=rules, user=user, path=path, result=v))
    interleave_monitor(ctx, impl, violation)
    ctx.extra["monitor_failures"] = dict(mon_fail)


def auth_type_cases(ctx, users, paths, violation):
    """Every built-in auth type (and look-alikes of "none"): `_verify_user` must be off exactly for "none"
    (glue obligation + correspondence with the REGENERATED RightsVerifyGen.verify_user), and the documented
    behaviour must hold with each of them (a reduced user x path product; the full product runs for none/htpasswd)."""
    from radicale import auth as auth_mod
    from radicale.auth import none as auth_none, denyall as auth_denyall

    class EmbeddedAuth(auth_mod.BaseAuth):          # an auth plugin handed over as a class (embedding), [auth] type is str_or_callable
        pass
    types = list(dict.fromkeys(list(auth_mod.INTERNAL_TYPES) + ["None", "NONE", "none ", " none", "nonee", "non", "n", "remote_user2",
                                                                "radicale_custom.auth", "http_x_remote_user ", "denyall2"]))
    types += [EmbeddedAuth, auth_none.Auth, auth_denyall.Auth, (lambda configuration: EmbeddedAuth(configuration))]
    us = [u for u in ["", "a", "b", "tmp", "Tmp", ".*", "user@domain.test"] if u in users or u == ""]
    ps = list(dict.fromkeys(paths[:ctx.n(30, 120)] + [p for p in paths if p in ("/", "/tmp", "/tmp/", "/tmp2/", "/tmp/cal/", "/tmp/cal/e.ics", "/Tmp/", "/a/", "/a/b", "/a/b/c")]))
    vcases = []
    for t in types:
        try:
            bk = simple_backends(t)
        except Exception as e:
            ctx.obligation("glue:_verify_user(auth %s)" % (t if isinstance(t, str) else getattr(t, "__qualname__", "callable")), False,
                           "cannot configure auth type %r: %r" % (t, e))
            continue
        want_verify = t != "none"
        tname = t if isinstance(t, str) else "<callable %s.%s>" % (getattr(t, "__module__", "?"), getattr(t, "__qualname__", type(t).__name__))
        got_verify = {k: bk[k]._verify_user for k in SIMPLE}
        ctx.obligation("glue:_verify_user(auth %s)" % (repr(t) if isinstance(t, str) else tname), all(v is want_verify for v in got_verify.values()),
                       "_verify_user must be %r for auth type %s, is %r" % (want_verify, tname, got_verify))
        for k in SIMPLE:
            vcases.append(((k, t), bool(bk[k]._verify_user)))
        for kind in SIMPLE:
            for u in us:
                for p in ps:
                    got = bk[kind].authorization(u, p)
                    want = X.doc_simple(kind, want_verify, u, p)
                    ctx.case(("simple-auth", tname, kind, u, p), nontrivial=(p != "/"))
                    if got != want:
                        violation("simple", "%s(auth type %s).authorization(%r, %r) = %r, documented: %r" % (kind, tname, u, p, got, want),
                                  dict(backend=kind, auth_type=tname, verify=want_verify, user=u, path=p, got=got, documented=want))
    ctx.count("cases:simple-auth-types", len(types) * len(SIMPLE) * len(us) * len(ps))
    ctx.count("auth-types", len(types))
    hdr = X.HEADER + "Require RV.Gen.RightsVerifyGen.\nDefinition cls_bool (exp got : bool) : N := if Bool.eqb exp got then 0 else 1.\n"
    codes = X.classify_cases(ctx, "c04_verify", "(fun kt => RightsVerifyGen.verify_user (snd kt))", "cls_bool", vcases,
                             lambda kt: "(%d, %s)" % (SIMPLE.index(kt[0]), "(Some %s)" % enc_str(kt[1]) if isinstance(kt[1], str) else "(@None pystr)"),
                             enc_bool, shard=3000, header=hdr)
    record(ctx, "verify_user", vcases, codes)


def product_cases(ctx, users, paths, cases):
    """The simple back-ends on the full product users x paths, evaluated inside Coq: one file per
    (back-end, verify) sharing the user and path tables; `cases` is in the order of the nested loops
    verify / back-end / user / path.  Returns the list of codes (0 agree, 1 differ)."""
    tables = ("Require RV.Gen.RightsGen.\nDefinition users_ := [%s].\nDefinition paths_ := [%s].\n" % (
        ";\n".join(enc_str(u) for u in users), ";\n".join(enc_str(p) for p in paths)))
    per = len(users) * len(paths)
    files, order = {}, []
    for bi, ((kind, verify, _, _), _) in enumerate(cases[::per]):
        chunk = cases[bi * per:(bi + 1) * per]
        fn = {"authenticated": "RightsGen.authorization_authenticated", "owner_only": "RightsGen.authorization_owner_only",
              "owner_write": "RightsGen.authorization_owner_write"}[kind]
        body = (X.HEADER + tables + "Definition expected_ := [%s].\n" % ";".join(enc_str(o) for _, o in chunk) +
                "Definition got_ := flat_map (fun u => map (fun p => %s %s u p) paths_) users_.\n" % (fn, enc_bool(verify)) +
                "Fixpoint cmp_ (a b : list pystr) : list N := match a, b with x :: a', y :: b' => cls_str x y :: cmp_ a' b' "
                "| [], [] => [] | _, _ => [1] end.\nEval vm_compute in (cmp_ expected_ got_).\n")
        name = "c04_simple_%d" % bi
        files[name] = body
        order.append((name, len(chunk)))
    res = ctx.coq_eval_many(files)
    codes = []
    for name, n in order:
        rc, out = res[name]
        m = re.search(r"=\s*\[?(.*?)\]?\s*:\s*list N", out, re.S)
        got = [int(x) for x in re.findall(r"\d+", m.group(1))] if (rc == 0 and m) else None
        if got is None or len(got) != n:
            ctx.obligation("correspondence:simple:model-evaluates", False, out[-1500:])
            return None
        codes += got
    return codes


def interleave_monitor(ctx, impl, violation):
    """Two request threads share ONE from_file back-end instance (as in the server).  Under every schedule with one
    preemption at line granularity inside rights/from_file.py (and two-preemption schedules up to a budget) each
    thread's result must equal its sequential result (which the correspondence ties to the model)."""
    il = X.Interleaver(("radicale/rights/from_file.py", "radicale/rights/__init__.py"))
    scenarios = list(X.INTERLEAVE_SCENARIOS)
    for _ in range(ctx.n(2, 12)):
        rules = X.gen_ff_file(ctx.rng, False, optional_groups=False)[:3]
        (ua, pa), (ub, pb) = X.gen_ff_queries(ctx.rng, rules, 2)
        if ua == ub:
            ub = "bob" if ua != "bob" else "alice"
        scenarios.append((rules, (ua, pa), (ub, pb)))
    n_sched = 0
    for rules, (ua, pa), (ub, pb) in scenarios:
        try:
            ro = impl.load(X.render_rules(rules))
        except Exception:
            continue
        fa = lambda: ro.authorization(ua, pa)
        fb = lambda: ro.authorization(ub, pb)
        seq = [X.py_authorization(ro, ua, pa), X.py_authorization(ro, ub, pb)]
        seq2 = [X.py_authorization(ro, ua, pa), X.py_authorization(ro, ub, pb)]
        if seq != seq2:
            violation("interleave", "from_file: the same sequential calls give different results the second time: %r then %r (rules %r)" % (seq, seq2, rules),
                      dict(rules=rules, calls=[[ua, pa], [ub, pb]], schedule="sequential, twice"))
            continue
        na, nb = il.count_lines(fa), il.count_lines(fb)
        for sched in X.schedules_two(na, nb, ctx.n(60, 1500), ctx.rng):
            res, executed = il.run([fa, fb], sched)
            n_sched += 1
            got = [(r[1], "ok") if r[0] == "ok" else ("ERR", r[1]) for r in res]
            ok = all(g[0] == s_[0] for g, s_ in zip(got, seq))
            ctx.case(("interleave", repr(rules), ua, pa, ub, pb, repr(sched)), nontrivial=True)
            if not ok:
                violation("interleave", "from_file, two threads on one back-end instance: user %r on %r gets %r (alone: %r), user %r on %r gets %r "
                          "(alone: %r) under schedule %r (thread, lines run)" % (ua, pa, got[0][0], seq[0][0], ub, pb, got[1][0], seq[1][0], executed),
                          dict(rules=rules, calls=[[ua, pa], [ub, pb]], schedule=[list(x) for x in sched], executed=executed,
                               got=[g[0] for g in got], sequential=[s_[0] for s_ in seq]))
                break
    ctx.count("interleave:schedules", n_sched)
    ctx.count("interleave:scenarios", len(scenarios))


def _user_matches(sec, user):
    try:
        return bool(sec.get("user")) and re.fullmatch(sec["user"].format(), user) is not None
    except Exception:
        return False


def record(ctx, tag, cases, codes):
    """Turn classification codes into the correspondence obligation + counters."""
    if codes is None:
        return
    cnt = collections.Counter(codes)
    ctx.count("model:%s:agree" % tag, cnt.get(0, 0))
    ctx.count("model:%s:unsupported" % tag, cnt.get(2, 0))
    bad = [i for i, c in enumerate(codes) if c in (1, 3)]
    detail = ""
    if bad:
        detail = "model differs from implementation on %d of %d cases (%d out of fuel); first: %r" % (
            len(bad), len(cases), cnt.get(3, 0), cases[bad[0]])
        ctx.extra.setdefault("disagreements", {})[tag] = [repr(cases[b]) for b in bad[:5]]
    # a correspondence that mostly answers "unsupported" proves nothing
    if cases and cnt.get(2, 0) > 0.35 * len(cases):
        bad = bad or [0]
        detail = detail or "model answers Unsupported on %d of %d cases" % (cnt.get(2, 0), len(cases))
    ctx.obligation("correspondence:%s" % tag, not bad, detail)


def replay(ctx, path):
    """Re-run the failing input of a replay file against the implementation and print what it does."""
    data = json.load(open(path))
    rp = data.get("replay", {})
    print(json.dumps(data, indent=1, default=str)[:3000])
    kind = rp.get("kind", "")
    if kind.startswith("simple"):
        at = rp.get("auth_type") or ("htpasswd" if rp["verify"] else "none")
        if at.startswith("<callable"):
            from radicale.auth import none as auth_none
            at = auth_none.Auth
        bk = simple_backends(at)[rp["backend"]]
        got = bk.authorization(rp["user"], rp["path"])
        want = X.doc_simple(rp["backend"], rp["verify"], rp["user"], rp["path"])
        print("now: %r  documented: %r" % (got, want))
        return 0 if got == want else 1
    if kind in ("optgroup", "from_file-oracle"):
        impl = X.FromFileImpl(ctx.scratch())
        ro = impl.load(X.render_rules(rp["rules"]), rp.get("rule_debug", False))
        v, k = X.py_authorization(ro, rp["user"], rp["path"])
        o = X.oracle_authorization(rp["rules"], rp["user"], rp["path"])
        print("now: %r (%s)  oracle: %r" % (v, k, o))
        return 1 if (k == "none-group-typeerror" or (o is not None and o != v)) else 0
    if kind == "interleave":
        impl = X.FromFileImpl(ctx.scratch())
        ro = impl.load(X.render_rules(rp["rules"]))
        (ua, pa), (ub, pb) = rp["calls"]
        seq = [X.py_authorization(ro, ua, pa)[0], X.py_authorization(ro, ub, pb)[0]]
        il = X.Interleaver(("radicale/rights/from_file.py", "radicale/rights/__init__.py"))
        res, executed = il.run([lambda: ro.authorization(ua, pa), lambda: ro.authorization(ub, pb)],
                               [tuple(x) for x in rp["schedule"]])
        got = [r[1] if r[0] == "ok" else "ERR" for r in res]
        print("now: interleaved %r, sequential %r, executed %r" % (got, seq, executed))
        return 0 if got == seq else 1
    if kind == "example-rules":
        impl = X.FromFileImpl(ctx.scratch())
        ro = impl.load(X.render_rules([{k: v for k, v in s.items() if not k.startswith("_")} for s in rp["rules"]]), rp.get("rule_debug", False))
        a, _ = X.py_authorization(ro, rp["user"], rp["path"])
        b = simple_backends("htpasswd")[rp["backend"]].authorization(rp["user"], rp["path"])
        print("now: example rules %r, plugin %r" % (a, b))
        return 0 if a == b else 1
    return 0
