"""C05 -- Only credentials the auth back-end accepts authenticate, as exactly that user.

1. proof: Props/C05.v (gate, htpasswd, login mapping) over the regenerated Gen/LoginMapC05Gen.v and
   Gen/GateSkelGen.v (tie T: translate/t_c05.py, lemmas Gen_map_login_eq / Gen_gate_skeleton_eq).
2. correspondence (tie K):
   text      Model/C05Text.v (str.isspace / strip / text-mode line iteration) against CPython;
   gate      Model/Gate.v against the real Application with a scripted auth back-end, scripted rights and
             scripted handlers over generated WSGI environ dicts;
   htpasswd  Model/Htpasswd.v (+ login mapping) against the real htpasswd.Auth through BaseAuth.login on
             generated files edited between attempts, real passlib/bcrypt answering `ext_verify`; login cache off, and
             on (logical clock: beyond both lifetimes at every file change, so the cache must be invisible -- C17_transparent)
             with attempts whose login+password concatenations coincide.
3. monitors = the property stated directly on the implementation, on the same cases: who a handler ran as,
   store diff after every rejected / malformed request, header spoofing, no exception of Radicale's own
   making in a login, htpasswd soundness (a successful login has an entry that verifies) and completeness;
   plus a live run with the REAL handlers (PROPFIND current-user-principal, store diff).
"""
import json
import os
import urllib.parse
import shutil
import tempfile
import warnings

from vlib import core, impl
from vlib import x_C05 as X
from vlib import x_C05_ht as H
from vlib import x_C05_plugins as plug
from vlib.x_C05 import enc_str

warnings.filterwarnings("ignore")

GATE_FN = "(fun c => obs_of (run_gate c))"


def diff_batched(ctx, tag, fn, cases, ie, oe, eqb, shard, per_call=24):
    """ctx.diff_cases in batches of `per_call` shards: core gives ONE time budget to all shards of a call, which a
    loaded machine can exceed in the thorough tier."""
    bad = []
    step = shard * per_call
    for k in range(0, len(cases), step):
        b = ctx.diff_cases("%s_b%d" % (tag, k // step), X.HEADER, fn, cases[k:k + step], ie, oe, eqb, shard=shard)
        if b is None:
            return None
        bad += [k + i for i in b]
    return bad


# ====================================================================================== text suite
def text_suite(ctx):
    import sys
    spaces = [c for c in range(sys.maxunicode + 1) if chr(c).isspace()]
    rc, out = ctx.coq_eval("c05_isspace", X.HEADER + "Eval vm_compute in (filter py_isspace (map N.of_nat (seq 0 13000))).\n"
                           "Eval vm_compute in (forallb (fun c => negb (py_isspace c)) [13000; 65279; 65535; 65536; 917504; 1114111]).\n")
    import re
    got = [int(x) for x in re.findall(r"\d+", out.split(": list N")[0])] if rc == 0 else None
    ok = rc == 0 and got == spaces and "= true" in out
    ctx.obligation("correspondence:text:isspace", ok, "" if ok else "py_isspace differs from str.isspace: %s" % out[-600:])
    ctx.case(("isspace", "all"), True)
    rng = ctx.rng
    alpha = [" ", "\t", "\n", "\r", "\x0b", "\x0c", "\x1c", "\x1f", "\x85", " ", " ", "​", "　", "a", "#", ":", "$", "é", "﻿"]
    strs = ["".join(rng.choice(alpha) for _ in range(rng.randint(0, 7))) for _ in range(ctx.n(600, 6000))]
    strs += ["", " ", "\r", "\r\n", "\n\r", "a\r", "\r\r\n", "a\r\nb\rc\nd", "\n", "a\n\n"]
    suites = [("strip", "py_strip", [(s, s.strip()) for s in strs], enc_str, enc_str, "eqs"),
              ("lstrip", "py_lstrip", [(s, s.lstrip()) for s in strs], enc_str, enc_str, "eqs")]
    d = tempfile.mkdtemp(prefix="rv-c05t-")
    fl = []
    for s in strs:
        p = os.path.join(d, "f")
        with open(p, "wb") as f:
            f.write(s.encode("utf-8"))
        with open(p, encoding="utf-8") as f:
            lines = [ln.rstrip("\n") for ln in f]
        fl.append((s, [ln for ln in lines if ln]))
    shutil.rmtree(d, ignore_errors=True)
    suites.append(("file_lines", "(fun t => filter (fun l => nonempty l) (file_lines t))", fl, enc_str, core.enc_list(enc_str), "(eq_list eqs)"))
    for tag, fn, cases, ie, oe, eqb in suites:
        for i, _ in cases:
            ctx.case((tag, i), nontrivial=bool(i.strip()) or "\r" in i)
        ctx.count("cases:text:" + tag, len(cases))
        bad = ctx.diff_cases("c05_" + tag, X.HEADER, fn, cases, ie, oe, eqb)
        if bad is not None:
            ctx.obligation("correspondence:text:%s" % tag, not bad,
                           "" if not bad else "model differs on %d cases, first %r" % (len(bad), cases[bad[0]]))


# ====================================================================================== gate suite
def safe_component(u):
    return bool(u) and "/" not in u and u not in (".", "..")


def py_map_login(cfg, login):
    """Independent reading of the documented mapping (monitor side)."""
    if cfg["lc"]:
        login = login.lower()
    if cfg["uc"]:
        login = login.upper()
    if cfg["sd"]:
        login = login.split("@")[0]
    return login


def gate_monitor(cfg, case, o):
    """The property, stated on what was observed.  Returns None or a description."""
    env, ev = case["env"], o["events"]
    backend = [e for e in ev if e[0] == "backend"]
    homes = [e for e in ev if e[0] == "home"]
    disp = [e for e in ev if e[0] == "dispatch"]
    ext_kind = cfg["kind"] in ("remote_user", "http_x_remote_user")
    if len(disp) > 1 or len(backend) > 1:
        return "more than one handler / back-end call"

    def answer(l, pw):
        if cfg["kind"] == X.PLUGIN:
            return case["script"].get((l, pw), "")
        return "" if cfg["kind"] == "denyall" else l
    # presented credentials, read off the request independently of the implementation
    presented = None
    if cfg["kind"] == "remote_user":
        presented = (env.get("REMOTE_USER", ""), "")
    elif cfg["kind"] == "http_x_remote_user":
        presented = (env.get("HTTP_X_REMOTE_USER", ""), "")
    elif case["decode"] and case["decode"][0][2] is not None and ":" in case["decode"][0][2]:
        presented = tuple(case["decode"][0][2].split(":", 1))
    if ext_kind and not presented[0] and (backend or homes or any(e[4] for e in disp)):
        lookalike = {k: v for k, v in env.items() if k in X.IDENTITY_KEYS and k != X.CONFIGURED_KEY[cfg["kind"]]}
        return ("%s is absent/empty, so the request is anonymous -- but back-end/home/handler activity %r (other identity-looking "
                "variables in the request: %r)" % (X.CONFIGURED_KEY[cfg["kind"]], ev, lookalike))
    for e in backend:
        if presented is None or not presented[0]:
            return "back-end asked although no login was presented: %r" % (e,)
        if (e[1], e[2]) != (py_map_login(cfg, presented[0]), presented[1]):
            return "back-end asked with %r, presented (mapped) credentials are %r" % (e[1:], (py_map_login(cfg, presented[0]), presented[1]))
    for e in disp:
        u = e[4]
        if u:
            if not backend:
                return "handler ran as %r without any back-end call" % u
            a = answer(backend[0][1], backend[0][2])
            if a is plug.RAISE or a != u:
                return "handler ran as %r, the back-end answered %r" % (u, "<exception>" if a is plug.RAISE else a)
            if not safe_component(u):
                return "handler ran as unsafe user name %r" % u
        elif presented is not None and presented[0]:
            return "handler ran anonymously although login %r was presented" % presented[0]
    for e in homes:
        u = e[1][1:-1]
        if not backend or answer(backend[0][1], backend[0][2]) != u or not safe_component(u):
            return "principal collection %r created, back-end answered %r" % (e[1], backend and answer(backend[0][1], backend[0][2]))
    rechecks = [e for e in ev if e[0] == "recheck"]
    for e in rechecks:
        u = e[1][1:-1]
        if not backend or answer(backend[0][1], backend[0][2]) != u or not safe_component(u):
            return "principal collection %r looked up under the w lock, back-end answered %r" % (e[1], backend and answer(backend[0][1], backend[0][2]))
    for e in homes:
        before_it = [r for r in rechecks if r[1] == e[1] and ev.index(r) < ev.index(e)]
        if not before_it or before_it[-1][2]:
            return "create_collection(%r) without a re-check under the exclusive lock that found it absent (events %r)" % (e[1], ev)
    created = [e for e in homes if e[2]]
    if o["store_changed"] != bool(created):
        return "store changed=%r but principal collections created=%r (new entries %r)" % (o["store_changed"], created, o["new_entries"][:4])
    if created and any(not (n == created[0][1][1:-1].join(["collection-root/", ""]) or n.startswith("collection-root/" + created[0][1][1:-1] + "/")
                            or n == "collection-root") for n in o["new_entries"]):
        return "entries outside the user's principal collection appeared: %r" % o["new_entries"][:4]
    # rejected credentials / unsafe names
    if backend:
        a = answer(backend[0][1], backend[0][2])
        if a is not plug.RAISE and not safe_component(a):
            if disp or homes or o["store_changed"]:
                return "rejected credentials (back-end answered %r) but handler/home/store activity" % a
            allowed = {400, 413, 500} | ({403} if ext_kind else {401})   # 400: negative CONTENT_LENGTH
            if o["status"] not in allowed:
                return "rejected credentials answered with status %d" % o["status"]
            if o["status"] == 401 and not o["www"]:
                return "401 without WWW-Authenticate"
        if a is plug.RAISE and (disp or homes or o["status"] != 500):
            return "back-end raised but status %d / activity" % o["status"]
    if o["status"] == 413:
        cl = X.clen_class(env.get("CONTENT_LENGTH"))
        if not (cfg["internal"] and cl[0] == "num" and cfg["max_len"] > 0 and cl[1] > cfg["max_len"]):
            return "413 for CONTENT_LENGTH %r with max_content_length %d (internal server: %r)" % (
                env.get("CONTENT_LENGTH"), cfg["max_len"], cfg["internal"])
    if o["status"] == 401 and not (o["www"] and (o["www_value"] or "").startswith("Basic realm=")):
        return "401 without Basic challenge"
    if o["www"] and o["status"] != 401:
        return "WWW-Authenticate on status %d" % o["status"]
    # malformed header: known method, no early exit -> 500 and nothing else
    if case["shape"] in ("bare", "bare-space", "no-colon", "non-ascii-header") and not ext_kind and not backend:
        if o["status"] not in (400, 405, 301, 404, 500) or disp or homes or o["store_changed"]:
            return "malformed Authorization (%s) -> status %d, activity %r" % (case["shape"], o["status"], ev)
    return None


def strip_identity(env, keep=None):
    """The same request without any identity-looking variable / header except the configured one."""
    return {k: v for k, v in env.items() if k not in X.IDENTITY_KEYS or k == keep}


def gate_suite(ctx):
    rng = ctx.rng
    ncfg, per = ctx.n(60, 400), ctx.n(25, 50)
    cases = []
    spoof_checked = 0
    # fixed configurations first so that every back-end kind x case mapping is present at any seed
    fixed = [dict(kind=k, lc=lc, uc=uc, sd=sd, script_name=sn, internal=i, max_len=100)
             for k, lc, uc, sd, sn, i in [("none", False, False, False, "", True), ("denyall", False, False, False, "", False),
                                         ("remote_user", False, False, True, "", True), ("http_x_remote_user", True, False, False, "/pfx", False),
                                         (X.PLUGIN, True, False, True, "", True), (X.PLUGIN, False, True, False, "/pfx", True)]]
    for i in range(ncfg):
        cfg = fixed[i] if i < len(fixed) else X.gen_config(rng)
        rig = X.GateRig(cfg)
        try:
            for _ in range(per):
                case = X.gen_case(rng, rig)
                o = X.run_case(rig, case)
                cases.append(((cfg, case), o))
                ctx.count("gate:status:%d" % o["status"])
                ctx.count("gate:shape:" + case["shape"])
                ctx.count("gate:kind:" + cfg["kind"].split(".")[-1])
                for e in o["events"]:
                    if e[0] == "recheck":
                        ctx.count("gate:recheck:%s" % ("found-meanwhile" if e[2] else "absent"))
                if any(e[0] == "dispatch" and e[4] for e in o["events"]):
                    ctx.count("gate:dispatched-as-user")
                err = gate_monitor(cfg, case, o)
                if err:
                    ctx.count("gate:violation")
                    if ctx.distribution["gate:violation"] <= 6:      # a handful of replays is enough, the count is in the evidence
                        ctx.violation("C05 gate: " + err, dict(kind="gate", cfg=cfg, case=_json_case(case), observed=_json_obs(o)))
                # spoofing: identity headers must not matter for another back-end
                keep = X.CONFIGURED_KEY.get(cfg["kind"])
                extra = [k for k in case["env"] if k in X.IDENTITY_KEYS and k != keep]
                if extra and not o["store_changed"] and not o["raced"]:
                    c2 = dict(case, env=strip_identity(case["env"], keep), precreate=[])
                    o2 = X.run_case(rig, c2)
                    spoof_checked += 1
                    if (o2["status"], o2["www"], o2["location"], o2["events"]) != (o["status"], o["www"], o["location"], o["events"]):
                        ctx.count("gate:violation:spoof")
                    if (o2["status"], o2["www"], o2["location"], o2["events"]) != (o["status"], o["www"], o["location"], o["events"]) \
                            and ctx.distribution["gate:violation:spoof"] <= 3:
                        ctx.violation("C05 gate: un-configured identity variables %r changed the outcome under auth type %s" % (extra, cfg["kind"]),
                                      dict(kind="gate", cfg=cfg, case=_json_case(case), observed=_json_obs(o), without_headers=_json_obs(o2)),
                                      signature="identity-from-unconfigured-header")
        finally:
            rig.close()
    ctx.extra["spoof_pairs_checked"] = spoof_checked
    for (cfg, case), o in cases:
        env = case["env"]
        ctx.case(("gate", cfg["kind"], cfg["lc"], cfg["uc"], cfg["sd"], cfg["script_name"], cfg["internal"], cfg["max_len"],
                  tuple(sorted(env.items())), case["handler"], tuple(sorted((k, str(v)) for k, v in case["script"].items())),
                  tuple(case["exists"]), tuple(case["rights_w"])),
                 nontrivial="HTTP_AUTHORIZATION" in env or any(k in env for k in X.IDENTITY_KEYS))
    ctx.samples += [dict(suite="gate", auth_type=cfg["kind"], environ=case["env"], status=o["status"], events=[list(e) for e in o["events"]])
                    for (cfg, case), o in cases[7:9]]
    bad = diff_batched(ctx, "c05_gate", GATE_FN, cases, X.enc_gcase, X.enc_gobs, "eq_gobs", shard=100)
    if bad is not None:
        ctx.obligation("correspondence:gate", not bad,
                       "" if not bad else "model differs from the implementation on %d of %d cases; first: cfg=%r env=%r observed=%r" % (
                           len(bad), len(cases), cases[bad[0]][0][0], cases[bad[0]][0][1]["env"], _json_obs(cases[bad[0]][1])))
        if bad:
            (cfg, case), o = cases[bad[0]]
            ctx.extra["gate_disagreement"] = dict(cfg=cfg, case=_json_case(case), observed=_json_obs(o),
                                                  model=ctx.coq_show(X.HEADER, "obs_of (run_gate %s)" % X.enc_gcase((cfg, case))))


def _json_case(case):
    return dict(env=case["env"], shape=case["shape"], handler=case["handler"], rights_w=case["rights_w"], precreate=case["precreate"], race=case.get("race"),
                exists=case.get("exists"), users=case["users"],
                script=[[l, pw, None if r is plug.RAISE else r] for (l, pw), r in case["script"].items()])


def _json_obs(o):
    return dict(status=o["status"], www=o["www_value"], location=o["location"], events=[list(e) for e in o["events"]],
                store_changed=o["store_changed"])


# ====================================================================================== htpasswd suite
def ht_oracle_verify(enc, digest, pw):
    """Does `digest` verify `pw` under the configured / detected scheme?  (property side: the documented rule)"""
    def lib(s, h):
        return H.real_verify(s, h, pw) == "VTrue"
    if enc == "plain":
        return digest == pw
    if enc == "md5":
        return lib("SMd5", digest.strip())
    if enc == "sha256":
        return lib("SSha256", digest.strip())
    if enc == "sha512":
        return lib("SSha512", digest.strip())
    if enc == "bcrypt":
        return lib("SBcrypt", digest)
    import re
    if digest.startswith("$apr1$"):
        return lib("SMd5", digest.strip()) if len(digest) == 37 else digest == pw
    if re.match(r"^\$2(a|b|x|y)?\$", digest):
        return lib("SBcrypt", digest) if len(digest) == 60 else digest == pw
    if digest.startswith("$5$"):
        return lib("SSha256", digest.strip()) if len(digest) == 63 else digest == pw
    if digest.startswith("$6$"):
        return lib("SSha512", digest.strip()) if len(digest) == 106 else digest == pw
    return digest == pw


def ht_entries(text):
    out = []
    for ln in text.replace("\r\n", "\n").replace("\r", "\n").split("\n"):
        if ln.lstrip() and not ln.lstrip().startswith("#") and ":" in ln:
            l, d = ln.split(":", 1)
            if l and d:
                out.append((l, d))
    return out


def ht_monitor(case, res):
    """Returns None or (description, signature)."""
    cfg = case["cfg"]
    if res is None:
        return None
    seen_stamp = (len(case["file0"]["data"] or b""), case["file0"]["mtime"])
    seen_text = H.decode_file(case["file0"]["data"])
    for (f, l, pw), r in zip(case["steps"], res):
        text = H.decode_file(f["data"])
        stamp = (len(f["data"] or b""), f["mtime"])
        if f.get("unreadable") and text is not None:
            text = ""              # cannot be opened: it has no entries as far as anybody may know
            if r[0] == "user" and (not cfg["cache"] or stamp != seen_stamp):
                return ("login(%r, %r) authenticated as %r while the htpasswd file cannot be opened (%s)%s" % (
                    l, pw, r[1], f["unreadable"], "" if not cfg["cache"] else " and its size/mtime changed"),
                    "htpasswd-unreadable-file-authenticates")
        if cfg["cache"]:
            if stamp != seen_stamp and text not in (None, False):
                seen_stamp, seen_text = stamp, text
            eff = seen_text if text not in (None, False) else text
        else:
            eff = text
        ml = py_map_login(cfg, l)
        if r[0] == "raise":
            if text not in (None, False) and not ("\x00" in pw):
                return ("login(%r, %r) raised %s with a readable htpasswd file" % (l, pw, r[1]), "htpasswd-login-raises")
            continue
        if eff in (None, False):
            continue
        ents = [(a, d) for a, d in ht_entries(eff) if a == ml]
        if r[0] == "user":
            if r[1] != ml:
                return ("login(%r) authenticated as %r, the mapped login is %r" % (l, r[1], ml), None)
            if not any(ht_oracle_verify(cfg["enc"], d, pw) for _, d in ents):
                return ("login(%r, %r) succeeded but no entry of the file for %r verifies that password (entries %r)" % (l, pw, ml, ents), None)
            # duplicates: the file's own rule is "first entry counts, later ones are ignored" (bcrypt digests are
            # dropped when the module is not loaded); valid for a dict built by a re-read of this very text
            import re
            loaded = cfg["enc"] in ("bcrypt", "autodetect") and cfg["module"]
            kept = [d for _, d in ents if loaded or not (re.match(r"^\$2(a|b|x|y)?\$", d) and len(d) == 60)]
            reread = (not cfg["cache"]) or eff != H.decode_file(case["file0"]["data"])
            if reread and kept and not ht_oracle_verify(cfg["enc"], kept[0], pw):
                return ("login(%r, %r) succeeded although the first entry for %r (%r) does not verify it -- a later, ignored duplicate does"
                        % (l, pw, ml, kept[0]), None)
        else:
            # completeness, in the unambiguous situation: exactly one entry for the login, and it verifies
            if len(ents) == 1 and ht_oracle_verify(cfg["enc"], ents[0][1], pw) and H.real_verify("SMd5", "x", pw) != "VRaise":
                import re
                shaped = bool(re.match(r"^\$2(a|b|x|y)?\$", ents[0][1])) and len(ents[0][1]) == 60
                loaded = cfg["enc"] in ("bcrypt", "autodetect") and cfg["module"]
                if shaped and not loaded:
                    continue          # documented: bcrypt digests are ignored when the module is not loaded
                if cfg["cache"] and stamp == seen_stamp and text != seen_text:
                    continue
                return ("login(%r, %r) rejected although the file's only entry for %r verifies (digest %r)" % (l, pw, ml, ents[0][1]), None)
    return None


def _json_ht(case):
    def jf(f):
        return dict(data=None if f["data"] is None else f["data"].decode("latin-1"), mtime=f["mtime"], unreadable=f.get("unreadable"))
    return dict(cfg=case["cfg"], file0=jf(case["file0"]), steps=[[jf(f), l, pw] for f, l, pw in case["steps"]])


def _unjson_ht(j):
    def uf(f):
        return dict(data=None if f["data"] is None else f["data"].encode("latin-1"), mtime=f["mtime"], unreadable=f.get("unreadable"))
    return dict(cfg=j["cfg"], file0=uf(j["file0"]), steps=[(uf(f), l, pw) for f, l, pw in j["steps"]])


def corpus(pool):
    """Regression cases: the two witnesses of defect F10, side by side with the same history under bcrypt."""
    h = pool.make("bcrypt", "pw")
    f0 = dict(data=b"bob:plainpw\n", mtime=1000)
    f1 = dict(data=("bob:plainpw\nalice:%s\n" % h).encode(), mtime=1001)
    f2 = dict(data=b"carol:$2y$abc\n", mtime=1000)
    out = []
    # file fault after a content change: alice was removed, bob's password changed, then the file cannot be opened
    g0 = dict(data=b"alice:apw\nbob:old\n", mtime=2000)
    g1 = dict(data=b"bob:new\n", mtime=2001)
    for cache in (False, True):
        for kind in ("EACCES", "EIO"):
            g2 = dict(data=b"bob:new\n", mtime=2002, unreadable=kind)
            out.append(dict(cfg=dict(enc="plain", cache=cache, lc=False, uc=False, sd=False, module=True), file0=g0,
                            steps=[(g0, "alice", "apw"), (g1, "bob", "new"), (g2, "alice", "apw"), (g2, "bob", "old"), (g2, "bob", "new"),
                                   (g1, "bob", "new"), (dict(g1, mtime=2003), "bob", "new")]))
    for cache in (False, True):
        base = dict(enc="autodetect", cache=cache, lc=False, uc=False, sd=False, module=True)
        out.append(dict(cfg=base, file0=f0, steps=[(f0, "bob", "plainpw"), (f1, "alice", "pw"), (f1, "alice", "nope"), (f1, "bob", "plainpw")]))
        out.append(dict(cfg=base, file0=f2, steps=[(f2, "carol", "$2y$abc"), (f2, "carol", "x")]))
        out.append(dict(cfg=dict(base, module=False), file0=f2, steps=[(f2, "carol", "$2y$abc"), (f1, "alice", "pw")]))
        out.append(dict(cfg=dict(base, enc="bcrypt"), file0=f1, steps=[(f1, "alice", "pw"), (f0, "alice", "pw")]))
    # login cache on ([auth] cache_logins): runs of attempts against ONE file version, among them pairs whose login+password
    # concatenations coincide ('alice'+'xyz' = 'alic'+'exyz' = 'alicex'+'yz'), accepted pair first and rejected pair first
    k0 = dict(data=b"alice:xyz\nbo:bby\n", mtime=3000)
    k1 = dict(data=b"alice:new\nbo:bby\n", mtime=3001)
    for cache in (False, True):
        for (lc, sd) in ((False, False), (True, True)):
            out.append(dict(cfg=dict(enc="plain", cache=cache, lc=lc, uc=False, sd=sd, module=True, cl=True), file0=k0,
                            steps=[(k0, "alice", "xyz"), (k0, "alic", "exyz"), (k0, "alicex", "yz"), (k0, "alice", "xyz"), (k0, "bob", "by"),
                                   (k0, "bo", "bby"), (k0, "bob", "by"), (k1, "alice", "xyz"), (k1, "alice", "new"), (k1, "alic", "enew"),
                                   (k1, "alice", "xyz")]))
    return out


def htpasswd_suite(ctx):
    rng = ctx.rng
    pool = H.Pool(rng)
    wd = tempfile.mkdtemp(prefix="rv-c05h-")
    cases = []
    reported = set()
    try:
        todo = corpus(pool)
        n = ctx.n(300, 4000)
        for i in range(n + len(todo)):
            case = todo[i] if i < len(todo) else H.gen_case(rng, pool)
            res = H.run_case(case, wd)
            cases.append((case, res))
            cfg = case["cfg"]
            ctx.count("ht:enc:%s" % cfg["enc"])
            ctx.count("ht:login-cache:%s" % ("on" if H.login_cache_on(cfg) else "off"))
            pairs = [(py_map_login(cfg, l), pw) for _, l, pw in case["steps"]]
            if any(a != b and a[0] + a[1] == b[0] + b[1] for k, a in enumerate(pairs) for b in pairs[:k]):
                ctx.count("ht:equal-concatenation-attempts:login-cache-%s" % ("on" if H.login_cache_on(cfg) else "off"))
            if res is None:
                ctx.count("ht:startup-refused")
            else:
                for r in res:
                    ctx.count("ht:result:" + r[0])
                for (f_, _, _), r in zip(case["steps"], res):
                    if f_.get("unreadable"):
                        ctx.count("ht:attempt-with-unreadable-file:" + r[0])
                    if r[0] == "user":
                        ctx.count("ht:success:%s:%s" % (cfg["enc"], "cache" if cfg["cache"] else "nocache"))
                        if H.login_cache_on(cfg):
                            ctx.count("ht:success:login-cache-on")
            v = ht_monitor(case, res)
            if v:
                ctx.count("ht:violation:%s" % (v[1] or "other"))
                # one replay per signature (a handful without one), the count goes to the distribution
                if (v[1] is None and ctx.distribution["ht:violation:other"] <= 6) or (v[1] is not None and v[1] not in reported):
                    reported.add(v[1])
                    ctx.violation("C05 htpasswd: " + v[0], dict(kind="htpasswd", case=_json_ht(case), observed=res), signature=v[1])
            ctx.case(("ht", json.dumps(_json_ht(case), sort_keys=True)), nontrivial=res is not None and any(r[0] == "user" for r in res) or
                     res is not None and len(res) > 1, sample=dict(suite="htpasswd", cfg=cfg, file0=_json_ht(case)["file0"]["data"],
                                                                    attempts=[[l, pw] for _, l, pw in case["steps"]], results=res) if i == len(todo) else None)
    finally:
        shutil.rmtree(wd, ignore_errors=True)
    ctx.extra["htpasswd_attempts"] = sum(len(r or []) for _, r in cases)
    bad = diff_batched(ctx, "c05_ht", "run_htpasswd", cases, H.enc_hcase, H.enc_hres, "eq_hres", shard=ctx.n(20, 40))
    if bad is not None:
        ctx.obligation("correspondence:htpasswd", not bad,
                       "" if not bad else "model (of the patched code) differs from the implementation on %d of %d histories; first: %r -> %r" % (
                           len(bad), len(cases), _json_ht(cases[bad[0]][0]), cases[bad[0]][1]))
        if bad:
            ctx.extra["htpasswd_disagreement"] = dict(case=_json_ht(cases[bad[0]][0]), observed=cases[bad[0]][1],
                                                      model=ctx.coq_show(X.HEADER, "run_htpasswd %s" % H.enc_hcase(cases[bad[0]][0])))


# ====================================================================================== socket suite (built-in server)
POLLUTION = {"REMOTE_USER": "leakadmin", "HTTP_X_REMOTE_USER": "leakadmin", "HTTP_REMOTE_USER": "leakadmin", "AUTH_USER": "leakadmin",
             "REMOTE_IDENT": "leakadmin", "HTTP_X_FORWARDED_USER": "leakadmin", "HTTP_AUTHORIZATION": "Basic bGVha2FkbWluOnB3",
             "HTTP_X_FORWARDED_FOR": "10.9.9.9", "HTTP_X_SCRIPT_NAME": "/leak", "CONTENT_TYPE": "text/xml; charset=bogus",
             "RV_C05_MARKER": "leak-marker"}


def environ_of_request(rq):
    """What a WSGI server may put into the environ FOR THIS REQUEST (mirror of wsgiref + RequestHandler.get_environ);
    in particular never REMOTE_USER, and nothing of the process environment."""
    env = {"REQUEST_METHOD": rq["method"], "PATH_INFO": urllib.parse.unquote(rq["path"].split("?", 1)[0]), "SCRIPT_NAME": "",
           "CONTENT_TYPE": "text/plain"}
    for k, v in rq["headers"]:
        key = k.upper().replace("-", "_")
        if key not in ("CONTENT_TYPE", "CONTENT_LENGTH"):
            key = "HTTP_" + key
        env[key] = v.strip()
    return env


def socket_suite(ctx):
    """The same gate, reached through the REAL built-in server over a socket, the server process having identity-looking
    variables in its own environment: the environ the application sees is a function of the request alone."""
    import base64
    from radicale import config
    rng = ctx.rng
    conf0 = config.load()
    jobs = []
    kinds = ["remote_user", "http_x_remote_user", "none", "denyall", X.PLUGIN]
    for kind in kinds:
        cfg = dict(kind=kind, lc=False, uc=False, sd=kind == X.PLUGIN, script_name="", internal=True, max_len=100000000)
        reqs = []
        for i in range(ctx.n(14, 80)):
            login, pw = rng.choice(["alice", "Bob", "bob@example.com", "a/b", "..", "carol"]), rng.choice(["pw", "p:w", ""])
            good = base64.b64encode(("%s:%s" % (login, pw)).encode()).decode()
            headers = []
            a = rng.choice([None, None, "Basic " + good, "Basic " + good, "Basic" + good, "basic " + good, "Basic !!!",
                            "Basic " + base64.b64encode(login.encode()).decode(), "Bearer x"])
            if a is not None:
                headers.append(["Authorization", a])
            for h in ("X-Remote-User", "Remote-User", "X-Forwarded-User", "X-User"):
                if rng.random() < 0.3:
                    headers.append([h, rng.choice(["admin", "root", "alice", "mallory,alice"])])
            if rng.random() < 0.15:
                headers.append(["X-Forwarded-For", "10.0.0.1"])
            if rng.random() < 0.15:
                headers.append(["X-Script-Name", rng.choice(["/sn", "sn"])])
            if rng.random() < 0.2:
                headers.append(["Content-Type", rng.choice(["text/xml; charset=utf-8", "text/xml"])])
            if i < 3:
                headers = []                      # the plain credential-less request
            rq = dict(method=rng.choice(["PROPFIND", "PROPFIND", "GET", "PUT", "OPTIONS", "MKCOL", "FOO"]) if i >= 3 else "PROPFIND",
                      path=rng.choice(["/", "/alice/", "/alice/cal/?x=1", "/.well-known/caldav", "/a%20b/"]) if i >= 3 else "/", headers=headers)
            env = environ_of_request(rq)
            login_seen, pw_seen, decode = [], [""], []
            araw = env.get("HTTP_AUTHORIZATION", "")
            if araw.startswith("Basic") and araw[5:].strip().isascii():
                text = X.ext_decode(conf0, env.get("CONTENT_TYPE", ""), araw[5:].strip())
                decode.append((env.get("CONTENT_TYPE", ""), araw[5:].strip(), text))
                if text is not None and ":" in text:
                    login_seen.append(text.split(":", 1)[0])
                    pw_seen.append(text.split(":", 1)[1])
            login_seen += [v for k, v in env.items() if k in X.IDENTITY_KEYS and v not in login_seen] + ["leakadmin"]
            script, backend, users = {}, [], []
            for l in login_seen:
                for c in X.candidates(l):
                    res = {"echo": c, "empty": "", "other": "carol", "unsafe": c + "/x"}[rng.choice(["echo", "echo", "echo", "empty", "other", "unsafe"])]
                    for q in dict.fromkeys(pw_seen):
                        if (c, q) not in script:
                            script[(c, q)] = res
                            backend.append((c, q, res))
                    for u in (res, c):
                        if u not in users:
                            users.append(u)
            strings = [rq["method"]] + login_seen
            rq.update(script=[[l, q, r] for (l, q), r in script.items()], rights_w=[u for u in users if rng.random() < 0.7], users=users,
                      handler=rng.choice(["na", "na", "ok", "multi"]))
            rq["_case"] = dict(env=env, shape="socket", decode=decode, upper=[(x, x.upper()) for x in dict.fromkeys(strings + [x.lower() for x in strings])],
                               lower=[(x, x.lower()) for x in dict.fromkeys(strings)], script=script, backend=backend, users=users,
                               rights_w=rq["rights_w"], precreate=[], handler=rq["handler"], race=None)
            reqs.append(rq)
        jobs.append(dict(cfg=cfg, requests=reqs))
    d = ctx.scratch()
    spec, outp = os.path.join(d, "c05_socket_spec.json"), os.path.join(d, "c05_socket_out.json")
    json.dump(dict(pollution=POLLUTION, jobs=[dict(cfg=j["cfg"], requests=[{k: v for k, v in r.items() if k != "_case"} for r in j["requests"]])
                                              for j in jobs]), open(spec, "w"))
    rc, out = core.sh([core.PY, os.path.join(core.VERIF, "vlib/drivers/c05_socket_driver.py"), spec, outp], timeout=ctx.n(240, 900))
    if rc != 0 or not os.path.exists(outp):
        ctx.obligation("socket:driver-ran", False, out[-1500:])
        return
    res = json.load(open(outp))
    penv = res["process_env"]
    cases, leaks = [], 0
    for j, rs in zip(jobs, res["jobs"]):
        cfg = j["cfg"]
        for rq, r in zip(j["requests"], rs):
            case = rq["_case"]
            case["exists"] = r["exists"]
            case["exists_w"] = r["exists"]
            events = [tuple(e) for e in r["events"]]
            created = [e for e in events if e[0] == "home" and e[2]]
            o = dict(status=r["status"], www=r["www"] is not None, www_value=r["www"], location=r["location"], events=events, raced=False,
                     store_changed=bool(created), new_entries=[])
            cases.append(((cfg, case), o))
            ctx.case(("socket", cfg["kind"], rq["method"], rq["path"], tuple(map(tuple, rq["headers"])), rq["handler"],
                      tuple(sorted((k, str(v)) for k, v in case["script"].items()))), nontrivial=True,
                     sample=dict(suite="socket", auth_type=cfg["kind"], request=[rq["method"], rq["path"], rq["headers"]], status=r["status"],
                                 events=r["events"]) if len(cases) == 2 else None)
            ctx.count("socket:status:%d" % r["status"])
            rep = dict(kind="socket", cfg=cfg, pollution=POLLUTION, request=dict(method=rq["method"], path=rq["path"], headers=rq["headers"]),
                       status=r["status"], events=r["events"])
            seen = r["environ"] or {}
            leaked = {k: v for k, v in sorted(seen.items(), key=lambda kv: (kv[0] not in POLLUTION, kv[0]))
                      if k in penv and penv[k] == v and case["env"].get(k) != v}
            if leaked:
                leaks += 1
                if leaks <= 2:
                    ctx.violation("C05 socket: variables of the server PROCESS environment are in the request's WSGI environ: %r" % (
                        dict(list(leaked.items())[:6]),), dict(rep, leaked=leaked), signature="process-environment-in-wsgi-environ")
            err = gate_monitor(cfg, case, o)
            if err:
                ctx.count("socket:violation")
                if ctx.distribution["socket:violation"] <= 3:
                    ctx.violation("C05 socket (built-in server, process environment %r): %s" % (
                        {k: v for k, v in POLLUTION.items() if "USER" in k}, err), rep)
    ctx.extra["socket_requests"] = len(cases)
    bad = diff_batched(ctx, "c05_sock", GATE_FN, cases, X.enc_gcase, X.enc_gobs, "eq_gobs", shard=100)
    if bad is not None:
        ctx.obligation("correspondence:socket-gate", not bad,
                       "" if not bad else "gate model on the environ derived from the REQUEST differs from the built-in server on %d of %d requests; "
                       "first: auth type %s, request %r, observed status %d events %r" % (
                           len(bad), len(cases), cases[bad[0]][0][0]["kind"], cases[bad[0]][0][1]["env"], cases[bad[0]][1]["status"],
                           cases[bad[0]][1]["events"]))


# ====================================================================================== live monitor (real handlers)
PRINCIPAL_BODY = ('<?xml version="1.0"?><D:propfind xmlns:D="DAV:"><D:prop><D:current-user-principal/></D:prop></D:propfind>')


def live_monitor(ctx):
    """Real handlers, real htpasswd back-end and the scripted one: the principal PROPFIND reports shows exactly
    the user the back-end returned; rejected / malformed requests leave the store untouched."""
    rng = ctx.rng
    d = tempfile.mkdtemp(prefix="rv-c05l-")
    fn = os.path.join(d, "ht")
    with open(fn, "w") as f:
        f.write("alice:apw\nbob:bpw\n# carol:cpw\nAlice@Example.com:xpw\n")
    confs = [
        ({"auth": {"type": "htpasswd", "htpasswd_filename": fn, "htpasswd_encryption": "plain", "cache_logins": "False"},
          "rights": {"type": "owner_only"}}, lambda l, pw: l if (l, pw) in (("alice", "apw"), ("bob", "bpw"), ("Alice@Example.com", "xpw")) else ""),
        ({"auth": {"type": "htpasswd", "htpasswd_filename": fn, "htpasswd_encryption": "plain", "cache_logins": "False", "lc_username": "True",
                   "strip_domain": "True"}, "rights": {"type": "owner_only"}},
         lambda l, pw: l.lower().split("@")[0] if (l.lower().split("@")[0], pw) in (("alice", "apw"), ("bob", "bpw")) else ""),
        # the same two with the login cache on (the file never changes here, so the cache must be invisible)
        ({"auth": {"type": "htpasswd", "htpasswd_filename": fn, "htpasswd_encryption": "plain", "cache_logins": "True"},
          "rights": {"type": "owner_only"}}, lambda l, pw: l if (l, pw) in (("alice", "apw"), ("bob", "bpw"), ("Alice@Example.com", "xpw")) else ""),
        ({"auth": {"type": "htpasswd", "htpasswd_filename": fn, "htpasswd_encryption": "plain", "cache_logins": "True", "lc_username": "True",
                   "strip_domain": "True"}, "rights": {"type": "owner_only"}},
         lambda l, pw: l.lower().split("@")[0] if (l.lower().split("@")[0], pw) in (("alice", "apw"), ("bob", "bpw")) else ""),
        ({"auth": {"type": X.PLUGIN, "cache_logins": "False"}, "rights": {"type": "owner_only"}}, None),
        ({"auth": {"type": "none"}, "rights": {"type": "owner_only"}}, lambda l, pw: l),
        ({"auth": {"type": "denyall"}, "rights": {"type": "owner_only"}}, lambda l, pw: ""),
    ]
    logins = ["alice", "bob", "carol", "Alice@Example.com", "ALICE", "bob@x", "mallory", "a/b", ".."]
    pws = ["apw", "bpw", "cpw", "xpw", "", "wrong"]
    n = 0
    try:
        for conf, oracle in confs:
            with impl.Server(conf) as srv:
                history = []
                for _ in range(ctx.n(40, 400)):
                    l, pw = rng.choice(logins), rng.choice(pws)
                    if rng.random() < 0.5:
                        l, pw = rng.choice([("alice", "apw"), ("bob", "bpw"), ("Alice@Example.com", "xpw"), ("ALICE", "apw"), ("bob@x", "bpw")])
                    if history and rng.random() < 0.25:
                        # the credentials of a recent request cut at another place: same login+password concatenation
                        cut = H.resplit(rng, *rng.choice(history[-4:]))
                        # (an empty login is an anonymous request, not a rejected one; a name the storage cannot make a
                        # principal collection for -- leading '.', trailing '~' -- is dropped by the gate: Model/Gate.v, not this oracle)
                        if cut and cut[0] and not cut[0].startswith(".") and not cut[0].endswith("~"):
                            l, pw = cut
                    history.append((l, pw))
                    if oracle is None:
                        ret = rng.choice([l, "", "zed", "a/b", "..", l.upper()])
                        plug.STATE["script"] = {(l, pw): ret}
                        want = ret
                    else:
                        want = oracle(l, pw)
                    if not safe_component(want):
                        want = ""
                    method = rng.choice(["PROPFIND", "PROPFIND", "PUT", "MKCALENDAR", "DELETE", "MKCOL", "PROPPATCH", "REPORT", "GET"])
                    env = {}
                    if rng.random() < 0.3:
                        env["REMOTE_USER"] = "root"
                        env["HTTP_X_REMOTE_USER"] = "root"
                    before = impl.tree_dump(srv.folder)
                    path = rng.choice(["/", "/%s/" % (want or "alice"), "/alice/", "/root/", "/alice/cal/", "/root/x.ics"])
                    data = PRINCIPAL_BODY if method == "PROPFIND" else (impl.event("u1") if method == "PUT" else None)
                    st, hd, body = srv.request(method, path, data=data, login="%s:%s" % (l, pw), environ=env, HTTP_DEPTH="0")
                    after = impl.tree_dump(srv.folder)
                    n += 1
                    ctx.case(("live", json.dumps(conf["auth"], sort_keys=True), l, pw, method, path, bool(env)), True)
                    ctx.count("live:status:%d" % st)
                    rep = dict(kind="live", conf=conf, method=method, path=path, login=l, password=pw, environ=env, status=st)
                    if not want:
                        if st != 401 or "WWW-Authenticate" not in hd:
                            ctx.count("live:violation:rejected-credentials-answered")
                            if ctx.distribution["live:violation:rejected-credentials-answered"] <= 4:   # a handful of replays is enough
                                ctx.violation("C05 live: rejected credentials %r answered %d" % ((l, pw), st), rep)
                        if before != after:
                            ctx.violation("C05 live: store changed by a request with rejected credentials", rep)
                    else:
                        if st == 401:
                            ctx.violation("C05 live: accepted credentials %r (user %r) answered 401" % ((l, pw), want), rep)
                        if method == "PROPFIND" and st == 207:
                            ms = impl.parse_multistatus(body)
                            for href, props in ms.items():
                                cup = props.get("D:current-user-principal") if isinstance(props, dict) else None
                                if cup and cup[0] == 200:
                                    h = cup[1].find("{DAV:}href")
                                    if h is None or urllib.parse.unquote(h.text) != "/%s/" % want:
                                        ctx.violation("C05 live: current-user-principal is %r, the back-end returned %r" % (
                                            h.text if h is not None else None, want), rep)
                        new = [e[0] for e in after if e not in before]
                        # (owner_only does not compare user and path when auth type is none -- C04's subject)
                        if conf["auth"]["type"] != "none" and any(not (x == "collection-root" or x == "collection-root/" + want or x.startswith("collection-root/%s/" % want))
                               for x in new):
                            ctx.violation("C05 live: user %r changed entries outside its principal collection: %r" % (want, new[:4]), rep)
                        if conf["auth"]["type"] != "none" and "root" in [x.split("/")[1] for x in new if x.count("/") >= 1]:
                            ctx.violation("C05 live: REMOTE_USER spoofing created /root", rep)
        # external-login back-ends with the real handlers: only the configured variable names the user
        for kind, key in X.CONFIGURED_KEY.items():
            conf = {"auth": {"type": kind}, "rights": {"type": "owner_only"}}
            with impl.Server(conf) as srv:
                for _ in range(ctx.n(40, 400)):
                    env = {}
                    if rng.random() < 0.5:
                        env[key] = rng.choice(["alice", "bob", "", "a/b", "mallory,alice", " alice ", "a,,b", ",", "alice, bob"])
                    for k in rng.sample([x for x in X.IDENTITY_KEYS if x != key], rng.randint(1, 3)):
                        env[k] = rng.choice(["admin", "root"])
                    want = env.get(key, "")
                    if not safe_component(want):
                        want = ""
                    method = rng.choice(["PROPFIND", "PROPFIND", "PUT", "MKCALENDAR", "MKCOL", "DELETE", "GET"])
                    path = rng.choice(["/", "/admin/", "/admin/cal/", "/root/x.ics", "/%s/" % (want or "admin"), "/%s/cal/" % (want or "root")])
                    data = PRINCIPAL_BODY if method == "PROPFIND" else (impl.event("u1") if method == "PUT" else None)
                    before = impl.tree_dump(srv.folder)
                    st, hd, body = srv.request(method, path, data=data, environ=env, HTTP_DEPTH="0")
                    after = impl.tree_dump(srv.folder)
                    n += 1
                    ctx.case(("live-ext", kind, tuple(sorted(env.items())), method, path), True)
                    ctx.count("live:status:%d" % st)
                    rep = dict(kind="live", conf=conf, method=method, path=path, environ=env, status=st)
                    new = [e[0] for e in after if e not in before]
                    principal = None
                    if method == "PROPFIND" and st == 207:
                        for href, props in impl.parse_multistatus(body).items():
                            cup = props.get("D:current-user-principal") if isinstance(props, dict) else None
                            if cup and cup[0] == 200 and cup[1].find("{DAV:}href") is not None:
                                principal = urllib.parse.unquote(cup[1].find("{DAV:}href").text)
                    if not want:
                        if new or before != after:
                            ctx.violation("C05 live: %s absent/empty, yet the store changed: %r" % (key, new[:4]), rep,
                                          signature="identity-from-unconfigured-header")
                        if principal is not None:
                            ctx.violation("C05 live: %s absent/empty, yet current-user-principal is %r" % (key, principal), rep,
                                          signature="identity-from-unconfigured-header")
                    else:
                        if principal is not None and principal != "/%s/" % want:
                            ctx.violation("C05 live: current-user-principal is %r, %s says %r" % (principal, key, want), rep)
                        if any(not (x == "collection-root" or x == "collection-root/" + want or x.startswith("collection-root/%s/" % want))
                               for x in new):
                            ctx.violation("C05 live: user %r (from %s) changed entries outside its principal collection: %r" % (want, key, new[:4]), rep)
    finally:
        shutil.rmtree(d, ignore_errors=True)
    ctx.extra["live_requests"] = n


def skeleton_obligation(ctx):
    """Tie T, second part: Proofs/C05GenEqGate.v (regenerated statement skeleton of _handle_request = the one the
    model was written from), compiled on its own so that it breaks alone."""
    from translate import t_c05
    with core.coq_lock():
        errs = t_c05.generate(core.REPO, os.path.join(core.COQ, "Gen"))
        ctx.obligation("translate:GateSkelGen", "GateSkelGen" not in errs, errs.get("GateSkelGen", ""))
        rc, out = core.make(["Proofs/C05GenEqGate.vo"])
        detail = ""
        if rc != 0:
            try:
                import difflib
                import re
                gen = open(os.path.join(core.COQ, "Gen/GateSkelGen.v")).read()
                exp = open(os.path.join(core.COQ, "Proofs/C05GenEqGate.v")).read()
                a = re.findall(r'^  "(.*)";?$', exp, re.M)
                b = re.findall(r'^  "(.*)";?$', gen, re.M)
                detail = "skeleton of _handle_request changed:\n" + "\n".join(
                    l for l in difflib.unified_diff(a, b, "modelled", "repository", lineterm="", n=1))[:1200]
            except OSError:
                detail = out[-800:]
        ctx.obligation("Proofs/C05GenEqGate.v:Gen_gate_skeleton_eq", rc == 0, detail)
        # third part: which environ keys the auth back-ends and the credential part of the gate read
        ctx.obligation("translate:AuthEnvC05Gen", "AuthEnvC05Gen" not in errs, errs.get("AuthEnvC05Gen", ""))
        rc, out = core.make(["Proofs/C05GenEqAuthEnv.vo"])
        detail = ""
        if rc != 0:
            try:
                import difflib
                import re
                gen = open(os.path.join(core.COQ, "Gen/AuthEnvC05Gen.v")).read()
                exp = open(os.path.join(core.COQ, "Proofs/C05GenEqAuthEnv.v")).read()
                a = re.findall(r'^  \("radicale.*$', exp, re.M)
                b = re.findall(r'^  \("radicale.*$', gen, re.M)
                detail = "environ keys read by the auth back-ends / the gate changed:\n" + "\n".join(
                    l for l in difflib.unified_diff(a, b, "modelled", "repository", lineterm="", n=0))[:1200]
            except OSError:
                detail = out[-800:]
        for lem in core.theorems_in("Proofs/C05GenEqAuthEnv.v", ("Lemma",)):
            ctx.obligation("Proofs/C05GenEqAuthEnv.v:%s" % lem, rc == 0, detail)
        hits = core.forbidden_scan(["Proofs/C05GenEqGate.v", "Proofs/C05GenEqAuthEnv.v"])
        if hits:
            ctx.obligation("no-forbidden-vernacular:C05GenEq*", False, "\n".join(hits))


# ====================================================================================== entry points
def run(ctx):
    ctx.rule = ("gate: one WSGI environ x configuration x scripted back-end/handler/rights answers, distinct by all of these, "
                "non-trivial = carries an Authorization / REMOTE_USER / X-Remote-User value; htpasswd: one history (start-up file, then "
                "file versions with an attempt each), distinct by the whole history, non-trivial = more than one attempt or a successful login; "
                "text: distinct by string; live: distinct by (auth configuration, login, password, method, path)")
    ctx.assumptions += [
        "login cache (cache_logins): its own behaviour over time is property C17; here it is switched on in 40 % of the htpasswd histories and "
        "in two live configurations under the clock rule of C17_transparent (the clock moves beyond both lifetimes whenever the htpasswd file "
        "changes, by 1 s otherwise), where it must be invisible: the cache-less model run_htpasswd and the htpasswd monitors apply unchanged",
        "passlib / bcrypt / base64 / codecs / str.lower / str.upper are external functions: universally quantified in the theorems, "
        "answered by the real libraries in the correspondence (tables handed to the model)",
        "storage and rights back-end enter the gate only through: does /user/ exist, is W granted on it, does create_collection raise ValueError; "
        "other storage exceptions are outside the model",
        "htpasswd file encoding utf-8 (the default); size/mtime_ns as reported by os.stat",
        "the ldap branch of _handle_request (group propagation) is not modelled",
    ]
    ctx.trusted += ["translate/t_c05.py (login-map translation, gate statement skeleton)",
                    "vlib/x_C05*.py: instrumentation of the real Application (do_* / _login / create_collection wrapped on the instance), "
                    "classification of CONTENT_LENGTH by int(), tables of library answers"]
    ctx.prove(extra_targets=["Gen/GateSkelGen.vo", "Gen/AuthEnvC05Gen.vo"])
    ctx.log("proved")
    skeleton_obligation(ctx)
    text_suite(ctx)
    ctx.log("text suite done")
    gate_suite(ctx)
    ctx.log("gate suite done")
    htpasswd_suite(ctx)
    ctx.log("htpasswd suite done")
    live_monitor(ctx)
    ctx.log("live monitor done")
    socket_suite(ctx)
    ctx.log("socket suite done")


def replay(ctx, path):
    data = json.load(open(path))
    rp = data.get("replay", {})
    print(json.dumps(data, indent=1)[:3000])
    if rp.get("kind") == "htpasswd":
        case = _unjson_ht(rp["case"])
        wd = tempfile.mkdtemp(prefix="rv-c05r-")
        try:
            res = H.run_case(case, wd)
        finally:
            shutil.rmtree(wd, ignore_errors=True)
        print("REPLAY result on %s: %r %s" % (core.REPO, res, case.get("startup_error", "")))
        v = ht_monitor(case, res)
        print("REPLAY monitor:", v)
        return 1 if v else 0
    if rp.get("kind") == "socket":
        d = tempfile.mkdtemp(prefix="rv-c05r-")
        try:
            rq = dict(rp["request"], script=[], rights_w=["leakadmin"], users=["leakadmin"], handler="ok")
            json.dump(dict(pollution=rp["pollution"], jobs=[dict(cfg=rp["cfg"], requests=[rq])]), open(os.path.join(d, "s.json"), "w"))
            rc, out = core.sh([core.PY, os.path.join(core.VERIF, "vlib/drivers/c05_socket_driver.py"), os.path.join(d, "s.json"),
                               os.path.join(d, "o.json")], timeout=120)
            r = json.load(open(os.path.join(d, "o.json")))["jobs"][0][0]
        finally:
            shutil.rmtree(d, ignore_errors=True)
        ident = {k: v for k, v in (r["environ"] or {}).items() if k in rp["pollution"] and rp["pollution"][k] == v}
        print("REPLAY over the socket on %s: status %d, events %r, process-environment variables in the WSGI environ: %r" % (
            core.REPO, r["status"], r["events"], ident))
        return 1 if ident or any(e[0] == "dispatch" and e[4] for e in r["events"]) else 0
    if rp.get("kind") == "gate":
        cfg, jc = rp["cfg"], rp["case"]
        case = dict(jc, script={(l, pw): (plug.RAISE if r is None else r) for l, pw, r in jc["script"]}, decode=[], upper=[], lower=[], backend=[])
        rig = X.GateRig(cfg)
        try:
            conf = rig.srv.configuration
            a = case["env"].get("HTTP_AUTHORIZATION", "")
            if a.startswith("Basic") and a[5:].strip().isascii():
                case["decode"] = [(case["env"].get("CONTENT_TYPE", ""), a[5:].strip(), X.ext_decode(conf, case["env"].get("CONTENT_TYPE", ""), a[5:].strip()))]
            o = X.run_case(rig, case)
        finally:
            rig.close()
        print("REPLAY observed on %s: %r" % (core.REPO, _json_obs(o)))
        v = gate_monitor(cfg, case, o)
        print("REPLAY monitor:", v)
        return 1 if v else 0
    return 0
