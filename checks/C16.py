"""C16 -- Calendar queries return exactly the matching objects.

1. proof: Props/C16.v (RFC 4791 9.9 tables = time_range_match for all well-formed objects and all ranges,
   early stop complete + termination, enclosing range, shortcut, free-busy) over Model/Rfc4791.v + Model/Filter.v;
   tie T: the two expressions of get_filtered are regenerated from the source (Gen/C16Gen.v).
2. correspondence (tie K), the model run inside Coq (vm_compute) against the real code at three levels:
   (1) the (start, end, is_recurrence) triples visit_time_ranges hands to a recording range_fn, and find_time_range;
   (2) time_range_match / time_range_fill;
   (3) calendar-query and free-busy-query REPORTs over the in-process server vs Filter.report / Filter.free_busy.
   Objects from the grammar x ranges with start / end / both at and +-1 s around every boundary second.
3. monitors on the implementation: an independent brute-force evaluation of the 9.9 tables over the explicit
   occurrence list (plain arithmetic, no dateutil) vs the server's REPORT answer, and "adding an always-true
   condition (a prop-filter that matches everything, a second identical comp-filter) does not change the result".
"""
import json

from vlib import core, impl, x_c16 as X
from vlib.core import enc_bool, enc_list, enc_opt

SIG_F14 = "C16-F14: unbounded recurring VTODO with DUE=DTSTART or DURATION 0, time range ending exactly at the first DTSTART"
SIG_F20 = "C16-F20: recurring zero-length VEVENT (DTEND = DTSTART), time range starting or ending exactly at an instance"


def classify(o, r):
    """which (candidate) defect a failing (object, range) belongs to; used as violation signature"""
    rec = o.get("rec")
    if r[0] is None and r[1] is None:
        return "C16-F13: time-range without start and end: answer depends on the storage shortcut"
    if X.known_f14(o, r):
        return SIG_F14
    if X.known_f20(o, r):
        return SIG_F20
    if rec and not rec["bound"] and X.ref_start(o) in rec["ex"]:
        return "C16: unbounded rule whose first instance is removed by EXDATE: enclosing range / answer taken from DTSTART"
    if o["t"] == "VEVENT" and o["end"] and o["end"][0] == "dur" and o["end"][1] > 0 and o["end"][1] % X.DAY == 0:
        return "C16-F3: VEVENT with a DURATION of whole days treated as zero-length"
    if o["t"] == "VTODO" and o["dtstart"] is None and o["due"] is None and o["completed"] is not None and o["created"] is not None:
        return "C16-F4: VTODO with COMPLETED and CREATED: wrong reference date / repeated disjuncts"
    if o["t"] == "VTODO" and None not in (o["dtstart"], o["due"], o["completed"], o["created"]) and o["duration"] is None:
        return "C16-F18: VTODO with DTSTART, DUE, COMPLETED, CREATED: DUE offset overwritten by COMPLETED-CREATED"
    if rec and rec["bound"] and rec.get("order", ["FREQ"])[0] == "BOUND":
        return "C16-F16: RRULE whose first part is COUNT/UNTIL treated as unbounded"
    if rec and o.get("kind") == "DATE" and (o["t"] == "VJOURNAL" or (o["t"] == "VEVENT" and not o["end"])):
        return "C16-F12: recurring all-day object without DTEND/DURATION: instances treated as one second"
    if (o["t"] == "VJOURNAL" and o["start"] is None) or (rec and not X.occurrences(X.ref_start(o), rec, X.ref_start(o) + 400 * X.DAY, 80)):
        return "C16-F19: object without any time range is declared matched by the shortcut for open-ended ranges"
    return None


SIG_SPELLING = "C16: comp-filter name not in upper case: comp_match and the storage pre-selection fold it differently"


def classify_q(o, r, sp, comp):
    """like classify, but a query whose comp-filter names are not upper case is its own class (except the known F14)"""
    c = classify(o, r)
    if c in (SIG_F14, SIG_F20):
        return c
    if sp and (sp.get(comp, comp) != comp or sp.get("VCALENDAR", "VCALENDAR") != "VCALENDAR"):
        return SIG_SPELLING
    return c


def okey(o):
    return json.dumps(o, sort_keys=True)


CONF = {"auth": {"type": "none"}, "rights": {"type": "owner_only"}}


def put_objects(srv, path, objs, extras=None):
    srv.mkcalendar(path, login="u:")
    for i, o in enumerate(objs):
        st, _, b = srv.put("%so%d.ics" % (path, i), X.to_ics(o, uid="uid%d" % i, extra=(extras[i] if extras else ())), login="u:")
        if st != 201:
            raise RuntimeError("PUT failed %s %r\n%s" % (st, b[:200], X.to_ics(o)))


def do_query(srv, path, fs):
    st, _, body = srv.request("REPORT", path, data=X.xml_query(fs), login="u:", HTTP_DEPTH="1")
    if st != 207:
        return None
    ids = []
    for h in X.hrefs_of(body):
        name = h.rsplit("/", 1)[-1]
        if name.startswith("o") and name.endswith(".ics"):
            ids.append(int(name[1:-4]))
    return sorted(ids)


def run(ctx):
    ctx.rule = ("objects from the grammar (VEVENT/VTODO/VJOURNAL; DATE or UTC DATE-TIME; DTEND|DURATION|none; FREQ=DAILY|WEEKLY, "
                "INTERVAL, COUNT|UNTIL|unbounded, EXDATE, RRULE parts in any order; DUE/COMPLETED/CREATED shapes) + corpus of past "
                "witnesses; ranges with start/end/both at and +-1 s around every boundary second of the first, second, last instance "
                "(plus far, empty, inverted, unbounded); a case = (object, range, level); non-trivial = object in the grammar "
                "and range with at least one bound; distinct by (object, range, level, filter variant)")
    ctx.assumptions += [
        "dateutil's rrule expansion (FREQ=DAILY|WEEKLY, INTERVAL, COUNT, UNTIL, EXDATE) is the arithmetic progression s0 + k*period: modelled, tied by correspondence only",
        "vobject parses the generated iCalendar text into the values the model takes as input (tied by the level-1/3 correspondence)",
        "every date-time stays within Python's datetime range (years 1..9999): DATETIME_MIN/MAX are modelled as -/+ infinity",
        "item.time_range of a stored item is find_time_range of its content (cache consistency is C13's subject)",
        "all values are whole seconds (iCalendar has no fractions); time zones other than UTC / DATE values and BYxxx rules are outside the grammar; RDATE and RECURRENCE-ID override components are modelled for UTC DATE-TIME VEVENTs only (Model/FilterExt.v)",
        "dateutil's rruleset iteration with vobject's addRDate=True is the ascending, duplicate-free merge of the rule's progression with RDATE (+ DTSTART when there is an RDATE), minus EXDATE: modelled, tied by the ext correspondence only",
    ]
    ctx.prove()
    rng = ctx.rng

    corpus = X.corpus()
    nobj = ctx.n(150, 2000)
    nlead = ctx.n(30, 400)
    leading = [X.gen_leading_ex(rng, t, forever) for i in range(nlead)
               for t, forever in [(["VEVENT", "VTODO", "VJOURNAL"][i % 3], (i // 3) % 3 != 2)]]
    objs = [c[1] for c in corpus] + leading + [X.gen_obj(rng) for _ in range(nobj)]
    ctx.count("object:first-instances-removed-by-EXDATE", len(leading))
    # beyond the base grammar: RDATE, several instances per day, rescheduled instances (RECURRENCE-ID); at function level
    # they are diffed against the extended model (Model/FilterExt.v: recorded calls, hull, match) AND checked by the
    # oracle monitors; at REPORT level by the monitors only
    ext = [X.gen_ext_event(rng) for _ in range(ctx.n(70, 900))]
    for o in ext:
        ctx.count("object:ext:%s" % ("+".join(k for k in ("rdate", "overrides") if o.get(k)) + ("+" + o["rec"]["freq"] if o["rec"] else "")))
    for o in objs:
        ctx.count("object:%s" % o["t"])
        ctx.count("rule:%s" % ("none" if not o.get("rec") else (o["rec"]["bound"][0] if o["rec"]["bound"] else "unbounded")))

    def record_bad(tag, bad, cases, show):
        ok = bad is not None and not bad
        if bad is not None:
            ctx.obligation("correspondence:%s" % tag, ok,
                           "" if ok else "model differs from implementation on %d of %d cases, first: %s" % (len(bad), len(cases), show(cases[bad[0]])))
        if bad:
            ctx.extra.setdefault("disagreements", {})[tag] = [show(cases[b]) for b in bad[:5]]
        return bad or []

    # ------------------------------------------------------------------ level 1: the ranges handed to range_fn + hull
    LIMIT = 12
    cases = []
    parsed = {}
    for o in objs:
        got = X.real_record(o, LIMIT)
        cases.append((o, None if isinstance(got, str) else got))
        ctx.case(("l1", okey(o)), nontrivial=X.in_grammar(o), sample=dict(level=1, ics=X.to_ics(o), calls=got) if len(ctx.samples) < 2 else None)
    bad1 = record_bad("visit_time_ranges", ctx.diff_cases("c16_l1", X.HEADER, "record %d" % LIMIT, cases, X.enc_obj,
                                                         enc_opt(X.tlist(X.enc_call, "call")), "eq_opt (eq_list eq_call)"),
                      cases, lambda c: "%s -> %r" % (X.to_ics(c[0]).replace("\r\n", "|"), c[1]))
    hcases = []
    for o in objs:
        parsed[id(o)] = vo = X.parse(o)
        h = X.real_hull(vo, o)
        hcases.append((o, None if isinstance(h, str) else h))
        ctx.case(("hull", okey(o)), nontrivial=X.in_grammar(o))
    record_bad("find_time_range", ctx.diff_cases("c16_hull", X.HEADER, "(fun o => find_time_range (hull_fuel o) o)", hcases, X.enc_obj,
                                                 enc_opt(lambda h: "(%s, %s)" % (X.enc_xt(h[0]), X.enc_xt(h[1]))), "eq_opt eq_xx"),
               hcases, lambda c: "%s -> %r" % (X.to_ics(c[0]).replace("\r\n", "|"), c[1]))

    # ------------------------------------------------------------------ search (DESIGN 2.3): objects on which model and code
    # disagree are probed exhaustively around every boundary second, implementation vs the independent RFC oracle
    first_violation = {}
    suspects = [cases[i] for i in bad1]
    for o, calls in suspects[:40]:
        if not X.in_grammar(o):
            continue
        pts = [x for c in (calls or []) for x in c[:2]]
        vo = X.parse(o)
        for r in X.probe_ranges(o, pts):
            m = X.real_match(vo, o, r)
            want = X.rfc_overlaps(o, r)
            ctx.case(("search", okey(o), tuple(r)), nontrivial=True)
            if not isinstance(m, str) and want is not None and m != want:
                sig = classify(o, r) or "C16: time_range_match differs from RFC 4791 9.9"
                if sig not in first_violation:
                    first_violation[sig] = True
                    ctx.violation("time_range_match=%r but RFC 4791 9.9 says %r for range %s..%s on %s" % (
                        m, want, r[0] and X.fmt_dt(r[0]), r[1] and X.fmt_dt(r[1]), X.to_ics(o).replace("\r\n", "|")),
                        dict(level="function", object=o, ics=X.to_ics(o), range=r, got=m, rfc=want), signature=sig)
                break

    # ------------------------------------------------------------------ level 2: time_range_match, time_range_fill
    per = ctx.n(9, 20)
    mcases, fcases = [], []
    for idx, o in enumerate(objs):
        vo = parsed[id(o)]
        ranges = X.boundary_ranges(rng, o, per)
        if idx < len(corpus):
            ranges = [corpus[idx][2]] + ranges
        for r in ranges:
            m = X.real_match(vo, o, r)
            mcases.append(((o, r), None if isinstance(m, str) else m))
            nontriv = X.in_grammar(o) and (r[0] is not None or r[1] is not None)
            ctx.case(("l2", okey(o), tuple(r)), nontrivial=nontriv)
            ctx.count("range:%s" % ("none" if r == [None, None] else "open-start" if r[0] is None else "open-end" if r[1] is None
                                    else "proper" if r[0] < r[1] else "empty/inverted"))
            # monitor: the function against the independent RFC oracle
            if X.in_grammar(o) and X.proper(r) and not isinstance(m, str):
                want = X.rfc_overlaps(o, r)
                if want is not None and want != m:
                    sig = classify(o, r) or "C16: time_range_match differs from RFC 4791 9.9"
                    if sig not in first_violation:
                        first_violation[sig] = True
                        ctx.violation("time_range_match=%r but RFC 4791 9.9 says %r for range %s..%s on %s" % (
                            m, want, r[0] and X.fmt_dt(r[0]), r[1] and X.fmt_dt(r[1]), X.to_ics(o).replace("\r\n", "|")),
                            dict(level="function", object=o, ics=X.to_ics(o), range=r, got=m, rfc=want), signature=sig)
            if o["t"] == "VEVENT" and (r[1] is not None or not (o["rec"] and not o["rec"]["bound"])) and (r[0] is not None or r[1] is not None):
                n = rng.choice([1, 2, 3, 50])
                f = X.real_fill(vo, o, r, n)
                fcases.append(((o, r, n), None if isinstance(f, str) else f))
    record_bad("time_range_match", ctx.diff_cases(
        "c16_l2", X.HEADER, "(fun x => time_range_match (match_fuel (fst x) (snd x)) (fst x) (snd x))", mcases,
        lambda x: "(%s, %s)" % (X.enc_obj(x[0]), X.enc_range(x[1])), enc_opt(enc_bool), "eq_opt Bool.eqb"),
        mcases, lambda c: "%s range %r -> %r" % (X.to_ics(c[0][0]).replace("\r\n", "|"), c[0][1], c[1]))
    record_bad("time_range_fill", ctx.diff_cases(
        "c16_fill", X.HEADER, "(fun x => time_range_fill (match_fuel (fst (fst x)) (snd (fst x))) (fst (fst x)) (snd (fst x)) (snd x))", fcases,
        lambda x: "(%s, %s, %s)" % (X.enc_obj(x[0]), X.enc_range(x[1]), X.z(x[2])),
        enc_opt(X.tlist(lambda p: "(%s, %s)" % (X.enc_xt(p[0]), X.enc_xt(p[1])), "(xt * xt)")), "eq_opt (eq_list eq_xx)"),
        fcases, lambda c: "%s range %r n=%d -> %r" % (X.to_ics(c[0][0]).replace("\r\n", "|"), c[0][1], c[0][2], c[1]))
    ctx.count("cases:match", len(mcases))
    ctx.count("cases:fill", len(fcases))

    # ------------------------------------------------------------------ level 2 for filters: simplify_prefilters and test_filter
    filter_level(ctx, objs)

    # ------------------------------------------------------------------ level 3: REPORTs over the in-process server
    ext_level(ctx, ext, first_violation)
    report_level(ctx, objs, corpus, first_violation, leading, ext)
    freebusy_level(ctx, objs, ext)


VARIANTS = ["plain", "prop-true", "twice", "prop-false", "no-range", "not-defined", "two-filters", "range-second", "unknown",
            "no-filter", "empty-cal", "three-levels", "other-comp", "range-at-cal", "prop-at-cal"]


def build_filters(variant, comp, r, sp=None):
    """sp: spelling of the names of this query (x_c16.spelling); None = everything upper case"""
    sp = sp or {}
    g = lambda k: sp.get(k, k)
    tr = ["tr", r[0], r[1]]
    comp = g(comp)
    pf = lambda p: ["pf", p, sp]
    cal = lambda ch: [["cf", g("VCALENDAR"), ch]]
    if variant == "plain":
        return [cal([["cf", comp, [tr]]])]
    if variant == "prop-true":
        return [cal([["cf", comp, [tr, pf(1)]]])]
    if variant == "twice":
        return [cal([["cf", comp, [tr]], ["cf", comp, [tr]]])]
    if variant == "prop-false":
        return [cal([["cf", comp, [tr, pf(0)]]])]
    if variant == "no-range":
        return [cal([["cf", comp, []]])]
    if variant == "not-defined":
        return [cal([["cf", comp, [["ind"]]]])]
    if variant == "two-filters":
        return [cal([["cf", comp, [tr]]]), cal([["cf", comp, [pf(1)]]])]
    if variant == "range-second":
        return [cal([["cf", comp, [pf(1), tr]]])]
    if variant == "unknown":
        return [cal([["cf", comp, [tr, ["unk"]]]])]
    if variant == "no-filter":
        return []
    if variant == "empty-cal":
        return [cal([])]
    if variant == "three-levels":
        return [cal([["cf", comp, [tr, ["cf", g("VALARM"), []]]]])]
    if variant == "other-comp":
        return [cal([["cf", g("VFREEBUSY"), [tr]]])]
    if variant == "range-at-cal":
        return [cal([tr])]
    if variant == "prop-at-cal":
        return [cal([pf(2), ["cf", comp, [tr]]])]
    raise AssertionError(variant)


def ext_level(ctx, ext, first_violation):
    """Objects of the extended grammar (RDATE, FREQ=HOURLY with rescheduled instances, ...), function level: model-vs-real
    correspondence (xrecord / xfind_time_range / xtime_range_match of Model/FilterExt.v by vm_compute) and monitors against the
    independent occurrence arithmetic: (a) the visitor hands out exactly the instances of the object, each with its own
    start and end; (b) find_time_range is their hull; (c) time_range_match = the 9.9 tables."""
    rng = ctx.rng
    XLIMIT = 40
    vcases, hcases, mcases = [], [], []
    for o in ext:
        vo = X.parse(o)
        bounded = not (o["rec"] and not o["rec"]["bound"])
        # model (Model/FilterExt.v) vs implementation: the recorded calls in order, the enclosing range, the match
        got = X.real_record(o, XLIMIT)
        vcases.append((o, None if isinstance(got, str) else got))
        h = X.real_hull(vo, o)
        hcases.append((o, None if isinstance(h, str) else h))
        if bounded:
            got = X.real_record(o, 2000)
            want = X.event_instances(o, None)
            ctx.case(("ext-visit", okey(o)), nontrivial=True)
            if (isinstance(got, str) or sorted((c[0], c[1]) for c in got) != want) and "ext-visit" not in first_violation:
                first_violation["ext-visit"] = True
                have = got if isinstance(got, str) else sorted((c[0], c[1]) for c in got)
                missing = [w for w in want if isinstance(have, str) or w not in have][:5]
                ctx.violation("visit_time_ranges hands out %s; the instances of the object are %s (missing: %s) on %s" % (
                    have if isinstance(have, str) else [(X.fmt_dt(a), X.fmt_dt(b)) for a, b in have[:8]],
                    [(X.fmt_dt(a), X.fmt_dt(b)) for a, b in want[:8]], [(X.fmt_dt(a), X.fmt_dt(b)) for a, b in missing],
                    X.to_ics(o).replace("\r\n", "|")),
                    dict(level="function-visit", object=o, ics=X.to_ics(o), visited=have, instances=want),
                    signature="C16: the visitor does not hand out exactly the instances of the object")
            h = X.real_hull(vo, o)
            wh = (min(a for a, _ in want), max(b for _, b in want)) if want else ("MInf", "PInf")
            ctx.case(("ext-hull", okey(o)), nontrivial=True)
            if tuple(h) != wh and "ext-hull" not in first_violation:
                first_violation["ext-hull"] = True
                ctx.violation("find_time_range gives %r, the instances span %r on %s" % (h, wh, X.to_ics(o).replace("\r\n", "|")),
                              dict(level="function-hull", object=o, ics=X.to_ics(o), hull=h, instances=want),
                              signature="C16: the enclosing range is not the hull of the instances")
        for r in X.boundary_ranges(rng, o, ctx.n(8, 20)):
            m = X.real_match(vo, o, r)
            mcases.append(((o, r), None if isinstance(m, str) else m))
            if not X.proper(r):
                continue
            want = X.rfc_overlaps(o, r)
            ctx.case(("ext-match", okey(o), tuple(r)), nontrivial=True)
            if m != want and "ext-match" not in first_violation:
                first_violation["ext-match"] = True
                ctx.violation("time_range_match=%r but RFC 4791 9.9 says %r for range %s..%s on %s" % (
                    m, want, r[0] and X.fmt_dt(r[0]), r[1] and X.fmt_dt(r[1]), X.to_ics(o).replace("\r\n", "|")),
                    dict(level="function", object=o, ics=X.to_ics(o), range=r, got=m, rfc=want),
                    signature="C16: time_range_match differs from RFC 4791 9.9 (RDATE / several instances per day / rescheduled instance)")

    def record_bad(tag, bad, cases, show):
        ok = bad is not None and not bad
        if bad is not None:
            ctx.obligation("correspondence:%s" % tag, ok,
                           "" if ok else "model differs from implementation on %d of %d cases, first: %s" % (len(bad), len(cases), show(cases[bad[0]])))
        if bad:
            ctx.extra.setdefault("disagreements", {})[tag] = [show(cases[b]) for b in bad[:5]]

    record_bad("ext:visit_time_ranges", ctx.diff_cases(
        "c16_xv", X.EXT_HEADER, "xrecord %d 700" % XLIMIT, vcases, X.enc_xevent,
        enc_opt(X.tlist(X.enc_call, "call")), "eq_opt (eq_list eq_call)"),
        vcases, lambda c: "%s -> %r" % (X.to_ics(c[0]).replace("\r\n", "|"), c[1]))
    record_bad("ext:find_time_range", ctx.diff_cases(
        "c16_xh", X.EXT_HEADER, "(fun o => xfind_time_range (xhull_fuel o) o)", hcases, X.enc_xevent,
        enc_opt(lambda h: "(%s, %s)" % (X.enc_xt(h[0]), X.enc_xt(h[1]))), "eq_opt eq_xx"),
        hcases, lambda c: "%s -> %r" % (X.to_ics(c[0]).replace("\r\n", "|"), c[1]))
    record_bad("ext:time_range_match", ctx.diff_cases(
        "c16_xm", X.EXT_HEADER, "(fun x => xtime_range_match (xmatch_fuel (fst x) (snd x)) (fst x) (snd x))", mcases,
        lambda x: "(%s, %s)" % (X.enc_xevent(x[0]), X.enc_range(x[1])), enc_opt(enc_bool), "eq_opt Bool.eqb"),
        mcases, lambda c: "%s range %r -> %r" % (X.to_ics(c[0][0]).replace("\r\n", "|"), c[0][1], c[1]))
    ctx.count("cases:ext-model-visit", len(vcases))
    ctx.count("cases:ext-model-hull", len(hcases))
    ctx.count("cases:ext-model-match", len(mcases))


def filter_level(ctx, objs):
    """simplify_prefilters(filters, "VCALENDAR") and test_filter("VCALENDAR", item, filter) called directly, names in all
    spellings; plus the two-site agreement as a monitor: an item that test_filter accepts is never skipped by the
    pre-selection's component test (tag == item.component_name)."""
    rng = ctx.rng
    n = ctx.n(160, 2500)
    scases, tcases = [], []
    flagged = False
    for i in range(n):
        o = rng.choice(objs)
        r = X.boundary_ranges(rng, o, 1)[0]
        sp = None if i % 3 == 0 else X.spelling(rng)
        v = VARIANTS[i % len(VARIANTS)]
        fs = build_filters(v, o["t"], r, sp)
        got = X.real_simplify(fs)
        scases.append((fs, None if isinstance(got, str) else got))
        ctx.case(("simplify", v, X.xml_query(fs)), nontrivial=True)
        if len(fs) == 1:
            t = X.real_test_filter(o, fs[0])
            tcases.append(((fs[0], o), None if isinstance(t, str) else t))
            ctx.case(("test_filter", v, X.xml_query(fs), okey(o)), nontrivial=X.in_grammar(o))
            if t is True and not isinstance(got, str) and got[0] is not None and got[0] != o["t"] and not flagged:
                flagged = True
                ctx.violation("test_filter accepts a %s for %s but simplify_prefilters selects component %r only: the object is dropped by the pre-selection" % (
                    o["t"], X.xml_query(fs), got[0]),
                    dict(level="function-filter", object=o, ics=X.to_ics(o), query=X.xml_query(fs), simplify=got, test_filter=t),
                    signature="C16: pre-selection and comp_match disagree on the component name")
    bad = ctx.diff_cases("c16_simplify", X.HEADER, "simplify_prefilters", scases, X.enc_filters,
                         enc_opt(lambda g: "(%s, %s, %s, %s)" % ("None" if g[0] is None else "(Some %s)" % X.enc_cname(g[0]),
                                                                 X.enc_xt(g[1]), X.enc_xt(g[2]), enc_bool(g[3]))),
                         "(fun a b => match b with Some y => eq_simplify a y | None => false end)")
    ok = bad is not None and not bad
    if bad is not None:
        ctx.obligation("correspondence:simplify_prefilters", ok, "" if ok else "model differs on %d of %d, first: %s -> %r" % (
            len(bad), len(scases), X.xml_query(scases[bad[0]][0]), scases[bad[0]][1]))
    bad = ctx.diff_cases("c16_testfilter", X.HEADER, "(fun x => run_test_filter (fst x) (snd x))", tcases,
                         lambda x: "(([%s] : list elem), %s)" % (";".join(X.enc_elem(e) for e in x[0]), X.enc_obj(x[1])),
                         enc_opt(enc_bool), "eq_opt Bool.eqb")
    ok = bad is not None and not bad
    if bad is not None:
        ctx.obligation("correspondence:test_filter", ok, "" if ok else "model differs on %d of %d, first: %s on %s -> %r" % (
            len(bad), len(tcases), X.xml_query([tcases[bad[0]][0][0]]), X.to_ics(tcases[bad[0]][0][1]).replace("\r\n", "|"), tcases[bad[0]][1]))
    ctx.count("cases:simplify_prefilters", len(scases))
    ctx.count("cases:test_filter", len(tcases))


def report_level(ctx, objs, corpus, first_violation, leading, ext=()):
    rng = ctx.rng
    batch_size = 10
    nbatches = ctx.n(7, 40)
    qper = ctx.n(16, 40)
    pool = list(objs)
    rcases = []
    meta = []
    with impl.Server(conf=CONF) as srv:
        srv.mkcol("/u/", login="u:")
        next_ = ctx.n(2, 12) if ext else 0
        for b in range(nbatches + next_):
            if b >= nbatches:
                # objects beyond the Coq grammar: monitors only
                batch = [ext[rng.randrange(len(ext))] for _ in range(batch_size)]
                qranges = []
            elif b == 0:
                batch = [c[1] for c in corpus]          # the regression corpus as one collection
                qranges = [(c[1], c[2]) for c in corpus]
            elif b % 7 == 1:
                # a collection of objects whose first instance(s) are removed by EXDATE; queries in the gap
                batch = [leading[rng.randrange(len(leading))] for _ in range(batch_size)]
                qranges = [(o, X.leading_gap_ranges(rng, o, 1)[0]) for o in batch for _ in range(2)]
            else:
                batch = [pool[rng.randrange(len(pool))] for _ in range(batch_size)]
                qranges = []
            path = "/u/c%d/" % b
            put_objects(srv, path, batch)
            while len(qranges) < (len(corpus) if b == 0 else 20 if (b % 7 == 1 and b < nbatches) else 0) + qper - (8 if (b % 7 == 1 and b < nbatches) else 0):
                o = rng.choice(batch)
                qranges.append((o, X.boundary_ranges(rng, o, 1)[0]))
            for qi, (o, r) in enumerate(qranges):
                comp = o["t"]
                # the spelling dimension: names in upper / lower / capitalised / mixed case, same for all variants of the query
                sp = None if qi % 2 == 0 else X.spelling(rng)
                ctx.count("spelling:%s" % ("upper" if sp is None else "varied"))
                variants = ["plain", "prop-true", "twice", "prop-false"]
                if qi % 3 == 0:
                    variants.append(VARIANTS[4 + (qi // 3 + b) % (len(VARIANTS) - 4)])
                answers = {}
                for v in variants:
                    fs = build_filters(v, comp, r, sp)
                    got = do_query(srv, path, fs)
                    answers[v] = got
                    if b < nbatches:
                        rcases.append(((fs, batch), got))
                        meta.append((v, comp, r))
                    ctx.case(("l3", v, comp, tuple(r), X.xml_query(fs), tuple(okey(x) for x in batch)), nontrivial=r != [None, None],
                             sample=dict(level=3, variant=v, query=X.xml_query(fs), answer=got) if len(ctx.samples) < 5 else None)
                    ctx.count("variant:%s" % v)
                # monitor 1: adding an always-true condition never changes the result
                for v in ("prop-true", "twice"):
                    if answers[v] != answers["plain"]:
                        culprits = sorted(set(answers[v] or []) ^ set(answers["plain"] or []))
                        oo = batch[culprits[0]] if culprits else o
                        sig = classify_q(oo, r, sp, comp) or "C16: adding an always-true condition changes the result"
                        if ("always", sig) not in first_violation:
                            first_violation[("always", sig)] = True
                            ctx.violation("calendar-query %s %s..%s: plain filter returns %r, with an always-true condition (%s) %r" % (
                                comp, r[0] and X.fmt_dt(r[0]), r[1] and X.fmt_dt(r[1]), answers["plain"], v, answers[v]),
                                dict(level="http", objects=batch, ics=[X.to_ics(x, uid="uid%d" % i) for i, x in enumerate(batch)],
                                     comp=comp, range=r, spelling=sp, variant=v, plain=answers["plain"], with_condition=answers[v],
                                     query_plain=X.xml_query(build_filters("plain", comp, r, sp)), query_variant=X.xml_query(build_filters(v, comp, r, sp))),
                                signature=sig)
                # monitor 1b: a condition that nothing satisfies leaves nothing
                if answers["prop-false"] not in ([], None) and ("never",) not in first_violation:
                    first_violation[("never",)] = True
                    ctx.violation("calendar-query %s %s..%s with a prop-filter that no object satisfies returns %r" % (
                        comp, r[0] and X.fmt_dt(r[0]), r[1] and X.fmt_dt(r[1]), answers["prop-false"]),
                        dict(level="http", objects=batch, ics=[X.to_ics(x, uid="uid%d" % i) for i, x in enumerate(batch)],
                             comp=comp, range=r, variant="prop-false", plain=[], with_condition=answers["prop-false"],
                             query_variant=X.xml_query(build_filters("prop-false", comp, r, sp))),
                        signature="C16: an unsatisfiable condition does not empty the result")
                if answers["plain"] is None and ("fails",) not in first_violation:
                    first_violation[("fails",)] = True
                    ctx.violation("calendar-query %s %s..%s fails instead of answering" % (comp, r[0] and X.fmt_dt(r[0]), r[1] and X.fmt_dt(r[1])),
                                  dict(level="http", objects=batch, ics=[X.to_ics(x, uid="uid%d" % i) for i, x in enumerate(batch)],
                                       comp=comp, range=r, variant="plain", plain=None, with_condition=None,
                                       query_plain=X.xml_query(build_filters("plain", comp, r, sp))),
                                  signature="C16: a well-formed calendar-query fails")
                # monitor 2: the answer is exactly the set the RFC 9.9 tables give (independent oracle)
                if X.proper(r) and answers["plain"] is not None:
                    for i, x in enumerate(batch):
                        if x["t"] != comp or not X.in_grammar(x):
                            continue
                        want = X.rfc_overlaps(x, r)
                        if want is None:
                            continue
                        got = i in answers["plain"]
                        if got != want:
                            sig = classify_q(x, r, sp, comp) or "C16: calendar-query differs from RFC 4791 9.9"
                            if ("http", sig) not in first_violation:
                                first_violation[("http", sig)] = True
                                ctx.violation("calendar-query %s %s..%s %s %s although RFC 4791 9.9 says %s" % (
                                    comp, r[0] and X.fmt_dt(r[0]), r[1] and X.fmt_dt(r[1]), "returns" if got else "does not return",
                                    X.to_ics(x).replace("\r\n", "|"), "no overlap" if got else "overlap"),
                                    dict(level="http", object=x, ics=X.to_ics(x), comp=comp, range=r, spelling=sp, returned=got, rfc=want,
                                         query=X.xml_query(build_filters("plain", comp, r, sp))), signature=sig)
    bad = ctx.diff_cases("c16_l3", X.HEADER, "(fun x => run_report (fst x) (snd x))", rcases,
                         lambda x: "(%s, [%s])" % (X.enc_filters(x[0]), ";".join(X.enc_obj(o) for o in x[1])),
                         enc_opt(X.tlist(X.z, "Z")), "eq_opt (eq_list Z.eqb)", shard=60)
    ok = bad is not None and not bad
    if bad is not None:
        ctx.obligation("correspondence:calendar-query", ok, "" if ok else "model differs from the server on %d of %d REPORTs, first: %r -> %r" % (
            len(bad), len(rcases), meta[bad[0]], rcases[bad[0]][1]))
    if bad:
        ctx.extra.setdefault("disagreements", {})["calendar-query"] = [
            dict(variant=meta[b][0], comp=meta[b][1], range=meta[b][2], query=X.xml_query(rcases[b][0][0]), server=rcases[b][1],
                 objects=[X.to_ics(o).replace("\r\n", "|") for o in rcases[b][0][1]]) for b in bad[:3]]
    ctx.count("cases:calendar-query", len(rcases))


FB_EXTRA = [((), False, "BUSY"), (("TRANSP:OPAQUE",), False, "BUSY"), (("TRANSP:TRANSPARENT",), True, "BUSY"),
            (("STATUS:CONFIRMED",), False, "BUSY"), (("STATUS:CANCELLED",), False, "FREE"), (("STATUS:TENTATIVE",), False, "BUSY-TENTATIVE"),
            (("TRANSP:TRANSPARENT", "STATUS:TENTATIVE"), True, "BUSY-TENTATIVE")]
FB_ENC = {"BUSY": ("FBBusy", 0), "FREE": ("FBFree", 1), "BUSY-TENTATIVE": ("FBTentative", 2)}

FB_HEADER = X.HEADER + """
Definition count_fb (x : xt * xt * Z) (l : list (xt * xt * Z)) : nat := length (filter (eq_fb x) l).
Definition perm_fb (a b : list (xt * xt * Z)) : bool :=
  Nat.eqb (length a) (length b) && forallb (fun x => Nat.eqb (count_fb x a) (count_fb x b)) a.
"""


def freebusy_level(ctx, objs, ext=()):
    rng = ctx.rng
    events = [o for o in objs if o["t"] == "VEVENT"]
    others = [o for o in objs if o["t"] != "VEVENT"]
    nb = ctx.n(6, 40)
    qper = ctx.n(12, 30)
    cases, meta = [], []
    seen_violation = False
    for b in range(nb):
        maxo = rng.choice([3, 6, 10000, 10000])
        conf = dict(CONF, reporting={"max_freebusy_occurrence": str(maxo)})
        with impl.Server(conf=conf) as srv:
            srv.mkcol("/u/", login="u:")
            with_ext = bool(ext) and b % 2 == 1
            pool = list(ext) if with_ext else events
            batch = [rng.choice(pool) for _ in range(7)] + [rng.choice(others) for _ in range(2)]
            flags = [rng.choice(FB_EXTRA) for _ in batch]
            put_objects(srv, "/u/fb/", batch, extras=[f[0] for f in flags])
            for _ in range(qper):
                o = rng.choice(batch[:7])
                r = X.boundary_ranges(rng, o, 1)[0]
                if r[0] is None or r[1] is None:
                    bs = X.boundaries(o)
                    r = [min(bs) - rng.choice([0, 1, X.DAY]), max(bs) + rng.choice([0, 1, X.DAY, 9 * X.DAY])]
                st, _, body = srv.request("REPORT", "/u/fb/", data=X.xml_freebusy(r), login="u:", HTTP_DEPTH="1")
                got = None
                if st == 200:
                    got = X.fb_periods(body)
                if not with_ext:
                    cases.append(((maxo, r, list(zip(batch, flags))), got))
                    meta.append((maxo, r, st))
                ctx.case(("fb", maxo, tuple(r), tuple(okey(x) for x in batch), tuple(f[2] for f in flags)), nontrivial=True)
                ctx.count("freebusy:%s" % ("cap" if st != 200 else "ok"))
                # monitor: every occurrence of every opaque event overlapping the range, with its start and end, nothing else
                if X.proper(r) and not seen_violation:
                    want = []
                    per_item = [0]
                    for x, f in zip(batch, flags):
                        if x["t"] != "VEVENT" or f[1] or not X.in_grammar(x):
                            continue
                        want += [(a, bb, f[2]) for a, bb in X.event_overlapping(x, r)]
                        per_item.append(sum(1 for w in want) - sum(per_item))
                    if got is None and max(per_item) >= maxo:
                        continue            # the occurrence cap: a refusal is the configured behaviour
                    if sorted(want) != got and all(X.in_grammar(x) for x in batch[:7]):
                        seen_violation = True
                        ctx.violation("free-busy-query %s..%s %s, the opaque events' overlapping occurrences are %r" % (
                            X.fmt_dt(r[0]), X.fmt_dt(r[1]), ("lists %r" % (got[:6],)) if got is not None else "fails with status %s" % st,
                            sorted(want)[:6]),
                            dict(level="http-freebusy", objects=batch, flags=[f[0] for f in flags], range=r, max_freebusy_occurrence=maxo,
                                 ics=[X.to_ics(x, uid="uid%d" % i, extra=f[0]) for i, (x, f) in enumerate(zip(batch, flags))],
                                 query=X.xml_freebusy(r), got=got, want=sorted(want)),
                            signature="C16: free-busy periods differ from the overlapping occurrences")

    def enc_in(x):
        maxo, r, items = x
        return "(%s, %s, [%s])" % (X.z(maxo), X.enc_range(r), ";".join(
            "(%s, %s, %s)" % (X.enc_obj(o), "true" if f[1] else "false", FB_ENC[f[2]][0]) for o, f in items))

    def enc_out(got):
        return "([%s] : list (xt * xt * Z))" % ";".join("(%s, %s, %s)" % (X.enc_xt(a), X.enc_xt(b), X.z(FB_ENC[t][1])) for a, b, t in got)
    bad = ctx.diff_cases("c16_fb", FB_HEADER, "(fun x => run_fb (fst (fst x)) (snd (fst x)) (snd x))", cases, enc_in, enc_opt(enc_out),
                         "eq_opt perm_fb", shard=40)
    ok = bad is not None and not bad
    if bad is not None:
        ctx.obligation("correspondence:free-busy-query", ok, "" if ok else "model differs from the server on %d of %d REPORTs, first: %r -> %r" % (
            len(bad), len(cases), meta[bad[0]], cases[bad[0]][1]))
    if bad:
        ctx.extra.setdefault("disagreements", {})["free-busy"] = [
            dict(max=meta[b][0], range=meta[b][1], status=meta[b][2], server=cases[b][1],
                 objects=[X.to_ics(o, extra=f[0]).replace("\r\n", "|") for o, f in cases[b][0][2]]) for b in bad[:3]]
    ctx.count("cases:free-busy", len(cases))


def replay(ctx, path):
    """re-run the single failing input of a replay file against the current tree and print both answers"""
    data = json.load(open(path))
    rp = data.get("replay", {})
    print(json.dumps({k: v for k, v in data.items() if k != "replay"}, indent=1)[:1500])
    if rp.get("level") == "function":
        o, r = rp["object"], rp["range"]
        got = X.real_match(X.parse(o), o, r)
        print("time_range_match:", got, " RFC 4791 9.9 oracle:", X.rfc_overlaps(o, r))
        return 0 if got == X.rfc_overlaps(o, r) else 1
    if rp.get("level") == "http" and "object" in rp:
        o, r = rp["object"], rp["range"]
        with impl.Server(conf=CONF) as srv:
            srv.mkcol("/u/", login="u:")
            put_objects(srv, "/u/c/", [o])
            got = do_query(srv, "/u/c/", build_filters("plain", rp["comp"], r, rp.get("spelling")))
        print("calendar-query returns:", got, " RFC 4791 9.9 oracle:", X.rfc_overlaps(o, r))
        return 0 if (got == [0]) == bool(X.rfc_overlaps(o, r)) else 1
    if rp.get("level") == "http" and "objects" in rp:
        with impl.Server(conf=CONF) as srv:
            srv.mkcol("/u/", login="u:")
            put_objects(srv, "/u/c/", rp["objects"])
            a = do_query(srv, "/u/c/", build_filters("plain", rp["comp"], rp["range"], rp.get("spelling")))
            b = do_query(srv, "/u/c/", build_filters(rp["variant"], rp["comp"], rp["range"], rp.get("spelling")))
        print("plain:", a, " with always-true condition:", b)
        return 0 if a == b else 1
    print(json.dumps(rp, indent=1)[:3000])
    return 0
