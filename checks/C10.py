"""C10 -- All storage access happens under the storage lock in a sufficient mode.

1. proof (tie T): Props/C10.v over the skeleton REGENERATED from radicale/app/*.py, lock.py, meta.py
   (translate/t_skeleton.py -> Gen/Skeleton.v): verified checker + vm_compute on the current source;
   Proofs/C19ParseFirst.v (parse-first lemma on the same term) is built as well.
2. correspondence (tie K), evaluated inside Coq with vm_compute on the event streams of the REAL server
   (driver subprocess vlib/drivers/c10_driver.py, instrumentation vlib/x_c10.py):
     corr skel stream = (disciplineb stream, accepts skel stream, ops_included skel stream)
   and the table sop_access against the system calls attributed to each storage operation.
3. monitors (direct statements of the property on the implementation):
     * api level: every storage API call of the application layer lies inside an acquire_lock window of a
       sufficient mode; the hook starts only inside a "w" window that ended normally, and after every such window
     * audit level (sys.addaudithook, per thread): every open/listdir/scandir/rename/remove/mkdir/... below the
       storage folder happens while the thread holds the lock; non-cache mutations only under "w"
     * system-call level (strace -f): the same on openat/stat/rename/unlink/mkdir/write/getdents64/... with the
       window = flock(LOCK_SH|LOCK_EX) ... close(lockfd) of the same thread (markers for multifilesystem_nolock);
       execve of the hook only inside LOCK_EX
   The request streams also run on storage states that only a CRASH produces (pseudo-request _CRASH: a forked server
   process dies before the k-th file system mutation of a write request, then time passes), followed by read-only requests.
   Storage side of tie T: Gen/StorageMut.v (translate/t_storagemut.py) = mutation sites reachable from each API operation,
   Proofs/C10StorageMut.v checks them against sop_access.
   for both storage types, normally and with an ADVERSARY thread that takes the lock exclusively at every
   Release point of the serving thread (so that the _meta_cache / _etag_cache re-read becomes observable).
"""
import json
import os
import re
import shutil
import tempfile
import threading

from vlib import core, trace, x_c10

HEADER = """From Coq Require Import List NArith Bool String.
Import ListNotations.
Require Import RV.Model.LockDiscipline RV.Gen.Skeleton.
Definition skel_of (n : nat) : skel := nth n (map snd requests) SSkip.
Definition b3_eqb (a b : bool * bool * bool) : bool :=
  let '(a1, a2, a3) := a in let '(b1, b2, b3) := b in Bool.eqb a1 b1 && Bool.eqb a2 b2 && Bool.eqb a3 b3.
Definition acc_leb (obs tab : access) : bool :=
  match obs, tab with ARead, _ => true | ACache, ARead => false | ACache, _ => true | AWrite, AWrite => true | AWrite, _ => false end.
"""
METHODS = ["DELETE", "GET", "HEAD", "MKCALENDAR", "MKCOL", "MOVE", "OPTIONS", "POST", "PROPFIND", "PROPPATCH", "PUT", "REPORT"]
WRITERS = {"SetMeta", "Upload", "Delete", "Move", "CreateCollection"}

CALLS = trace.FILE_CALLS
PATH_CALLS = {"open", "openat", "openat2", "creat", "stat", "lstat", "newfstatat", "statx", "access", "faccessat", "faccessat2",
              "readlink", "readlinkat", "rename", "renameat", "renameat2", "unlink", "unlinkat", "mkdir", "mkdirat", "rmdir",
              "chmod", "fchmodat", "chown", "fchownat", "link", "linkat", "symlink", "symlinkat", "truncate", "utimensat",
              "utime", "utimes"}
FD_CALLS = {"write", "pwrite64", "getdents64"}
_pair = re.compile(r'(?:(AT_FDCWD|\d+<[^>]*>),\s*)?"((?:[^"\\]|\\.)*)"')
_fd0 = re.compile(r'^(\d+)<([^>]*)>')


def call_paths(e, cwd):
    """Absolute paths a system call refers to."""
    out = []
    if e.call in FD_CALLS:
        m = _fd0.match(e.args)
        if m:
            out.append(m.group(2))
        return out
    if e.call in PATH_CALLS:
        for dirfd, p in _pair.findall(e.args):
            p = trace.unescape(p)
            if not p.startswith("/"):
                base = cwd
                m = re.match(r"\d+<([^>]*)>", dirfd or "")
                if m:
                    base = m.group(1)
                p = os.path.join(base, p)
            out.append(os.path.normpath(p))
            if e.call not in ("rename", "renameat", "renameat2", "link", "linkat", "symlink", "symlinkat"):
                break
        if not out:           # e.g. newfstatat(5</dir>, "", ..., AT_EMPTY_PATH)
            m = _fd0.match(e.args)
            if m:
                out.append(m.group(2))
    return out


def is_mutation(e):
    if e.call in trace.MUTATING or e.call in ("write", "pwrite64"):
        return True
    if e.call in ("open", "openat", "openat2", "creat"):
        return bool(re.search(r"O_WRONLY|O_RDWR|O_CREAT|O_TRUNC|O_APPEND", e.args))
    return False


def classify(path, folder):
    """'lock' | 'cache' | 'data' | None (outside the data area)."""
    root = os.path.join(folder, "collection-root")
    croot = os.path.join(folder, "collection-cache")
    if path == os.path.join(folder, ".Radicale.lock"):
        return "lock"
    if path == croot or path.startswith(croot + "/"):
        return "cache"
    if path == root or path.startswith(root + "/"):
        comps = path[len(root):].split("/")
        if ".Radicale.cache" in comps:
            return "cache"          # includes the per-collection cache lock files .Radicale.cache/<ns>/.Radicale.lock.<ns>
        return "data"               # a lock file anywhere else in a collection folder is collection data like any other file
    return None


RIGHTS_ALL = "[all]\nuser: .*\ncollection: .*\npermissions: RrWw\n"


# ---------------------------------------------------------------------------------------------- one driver run
class Run:
    def __init__(self, name, stype, adversary, straced, reqs, hook="true", watch_hook_group=False, rights="owner_only"):
        self.name, self.stype, self.adversary, self.straced, self.reqs = name, stype, adversary, straced, reqs
        self.hook, self.watch_hook_group, self.rights = hook, watch_hook_group, rights
        self.results = None
        self.error = None
        self.events = None

    def conf(self):
        if self.rights == "all":
            # "everything everywhere": collection-level AND item-level read/write on every path for everybody, so that
            # the permission-dependent branches (e.g. PUT: whole collection or item?) are decided by the storage only
            rights = {"type": "from_file", "file": os.path.join(os.path.dirname(getattr(self, "folder", "/nonexistent/x")), "rights")}
        else:
            rights = {"type": self.rights}
        return {"auth": {"type": "none"}, "rights": rights,
                "storage": {"type": self.stype, "hook": self.hook.replace("@FOLDER@", getattr(self, "folder", "@FOLDER@")),
                            "predefined_collections": json.dumps(x_c10.PREDEFINED)}}

    def execute(self, base, timeout):
        d = os.path.join(base, self.name)
        self.folder = os.path.join(d, "store")
        os.makedirs(self.folder)
        with open(os.path.join(d, "rights"), "w") as f:
            f.write(RIGHTS_ALL)
        spec, outp, tr = os.path.join(d, "spec.json"), os.path.join(d, "out.json"), os.path.join(d, "trace.txt")
        json.dump(dict(folder=self.folder, conf=self.conf(), adversary=self.adversary, requests=self.reqs,
                       watch_hook_group=self.watch_hook_group), open(spec, "w"))
        argv = [core.PY, os.path.join(core.VERIF, "vlib/drivers/c10_driver.py"), spec, outp]
        if self.straced:
            rc, out = trace.run_traced(argv, tr, calls=CALLS, timeout=timeout)
        else:
            rc, out = core.sh(argv, timeout=timeout, cwd=d)
        if rc != 0 or not os.path.exists(outp):
            self.error = "driver failed rc=%s: %s" % (rc, out[-1500:])
            return
        o = json.load(open(outp))
        self.results, self.main_tid, self.adv_tid = o["results"], o["main_tid"], o["adv_tid"]
        if self.straced:
            self.events = trace.parse(tr)
            os.remove(tr)


# ---------------------------------------------------------------------------------------------- monitors
def mon_api(api):
    """The property on the api event stream of one request (independent of the Coq automaton)."""
    v = x_c10.py_discipline(api)
    if v:
        return v
    # hook completeness: every "w" window that ended normally started the hook before releasing
    i = 0
    while i < len(api):
        if api[i][0] == "Acquire" and api[i][1] == "w":
            j = i + 1
            normal, hook = None, False
            while j < len(api) and api[j][0] != "Release":
                if api[j][0] == "BodyEnd":
                    normal = api[j][1] == "normal"
                if api[j][0] == "Hook":
                    hook = True
                j += 1
            if normal and not hook:
                return "exclusive section ended normally but the hook was not started"
            if normal is False and hook:
                return "hook started after a failed section"
            i = j
        i += 1
    if any(e[0] == "Hook" for e in api) and not any(e[0] == "Acquire" and e[1] == "w" for e in api):
        return "hook started in a request that never took the exclusive lock"
    return None


def mon_files(files):
    """Audit-level: file events of the serving thread below the storage folder."""
    for f in files:
        if f["t"] != "main":
            continue
        p = f["path"]
        kind = classify("/F" + p, "/F")
        if f["ev"] == "hook-group-alive":
            return ("processes of the storage hook's group (pgid %s) are still alive when the exclusive lock is released: %s"
                    % (f.get("pgid"), f.get("processes"))), f
        if f["ev"] == "exec":
            if f["held"] != "w":
                return "hook process started while the thread holds %r" % f["held"], f
            if f.get("locked") != "w":
                return "hook process started while the storage lock object reports locked=%r" % f.get("locked"), f
            continue
        if kind in (None, "lock"):
            continue
        if f["held"] is None:
            return "%s %s while the serving thread holds no storage lock (during %s)" % (f["ev"], p, f["op"]), f
        if f["write"] and kind == "data" and f["held"] != "w":
            return "%s (write) %s under the shared lock" % (f["ev"], p), f
    return None


def mon_syscalls(run, cwd):
    """System-call level.  Returns (violations [(req index, text, raw line)], per-op access observations, n windows)."""
    folder = os.path.realpath(run.folder)
    viol = []
    ops = {}        # sop -> set of observed access classes
    held = {}       # tid -> (mode, fd) via flock
    mheld = {}      # tid -> mode via markers
    op = {}
    req = -1
    started = False
    windows = 0
    checked = 0
    use_flock = run.stype == "multifilesystem"
    threads = {run.main_tid, run.adv_tid}
    for e in run.events:
        if e.call in ("stat", "newfstatat", "statx", "lstat") and e.paths and e.paths[0].startswith(trace.MARK_PREFIX):
            lab = e.paths[0][len(trace.MARK_PREFIX):]
            if lab == "setup-done":
                started = True
            elif lab.startswith("req-"):
                req = int(lab[4:])
            elif lab.startswith("acq-"):
                mheld[e.pid] = lab[4:]
                windows += 1
            elif lab == "rel":
                mheld[e.pid] = None
            elif lab.startswith("op-"):
                op[e.pid] = lab[3:]
            elif lab == "opend":
                op[e.pid] = None
            elif lab == "end":
                started = False
            continue
        if not started:
            continue
        if e.pid not in threads:
            # every other process is a descendant of the storage hook
            h = (held.get(run.main_tid) or (None, None))[0] if use_flock else mheld.get(run.main_tid)
            if e.call == "execve" and e.ret == 0:
                if h != "w":
                    viol.append((req, "hook execve while the serving thread holds %r" % h, e.raw[:300]))
            elif (e.call in PATH_CALLS or e.call in FD_CALLS) and h != "w":
                for p in call_paths(e, folder):
                    if p == folder or p.startswith(folder + "/"):
                        checked += 1
                        viol.append((req, "a process started by the storage hook (pid %d) does %s on %s after the exclusive "
                                     "lock was released (serving thread holds %r)" % (e.pid, e.call, p[len(folder):], h), e.raw[:300]))
            continue
        if e.call == "flock":
            m = _fd0.match(e.args)
            if m and m.group(2) == os.path.join(folder, ".Radicale.lock") and e.ret == 0:
                if "LOCK_EX" in e.args:
                    held[e.pid] = ("w", m.group(1))
                elif "LOCK_SH" in e.args:
                    held[e.pid] = ("r", m.group(1))
            continue
        if e.call == "close":
            m = _fd0.match(e.args)
            if m and e.pid in held and held[e.pid] and m.group(2) == os.path.join(folder, ".Radicale.lock") \
                    and m.group(1) == held[e.pid][1]:
                held[e.pid] = None
            continue
        if e.call not in PATH_CALLS and e.call not in FD_CALLS:
            continue
        if e.pid != run.main_tid:
            continue
        h = (held.get(e.pid) or (None, None))[0] if use_flock else mheld.get(e.pid)
        mut = is_mutation(e)
        for p in call_paths(e, cwd):
            kind = classify(p, folder)
            if kind in (None, "lock"):
                continue
            checked += 1
            k = op.get(e.pid)
            if k:
                ops.setdefault(k, set()).add("AWrite" if (mut and kind == "data") else "ACache" if mut else "ARead")
            if h is None:
                viol.append((req, "%s on %s outside the lock window of the serving thread (during %s)" % (
                    e.call, p[len(folder):], k), e.raw[:300]))
            elif mut and kind == "data" and h != "w":
                viol.append((req, "%s changes %s under the shared lock" % (e.call, p[len(folder):]), e.raw[:300]))
            if use_flock and mheld.get(e.pid) != h and False:
                pass
    return viol, ops, windows, checked


# ---------------------------------------------------------------------------------------------- the check
def run(ctx):
    ctx.rule = ("request = one HTTP request of the seeded mix (all 12 methods, success and error exits, 8 REPORT kinds incl. "
                "free-busy and sync with early unlock -- also on storage states left by a server process that died at a chosen "
                "file system mutation of a write request of every shape, aged 0 s .. 400 days, followed by read-only requests --, "
                "every method as the first request of a fresh user with "
                "[storage] predefined_collections configured, anonymous) run against the real server for storage type "
                "multifilesystem / multifilesystem_nolock, normally or with an adversary thread taking the lock exclusively at "
                "every Release point; under the rights policies owner_only / authenticated / from_file RrWw-on-every-path; distinct by (storage type, adversary, rights, method, status, api event stream); non-trivial = "
                "the request took the storage lock at least once")
    ctx.assumptions += [
        "skeleton semantics [exec] (Model/LockDiscipline.v) is the model of Python control flow and of lock.py's acquire_lock; "
        "it is faithful for non-nested locking (the checker rejects nesting); exceptions may start at any statement",
        "the skeleton is syntactic: a lazily consumed generator contributes its events where it is created; generators over "
        "storage drained after the unlock are covered by the trace monitors only",
        "receiver classification table LOCALS and OPAQUE_OK of translate/t_skeleton.py (reviewed by hand)",
        "kernel flock semantics; one request per thread; the hook command is configured (worst case)",
    ]
    ctx.trusted.append("translate/t_skeleton.py (tie T for the handler skeletons, fail-closed) incl. its classification tables")
    ctx.trusted.append("translate/t_storagemut.py (tie T for the storage operations: reachable file system mutation sites; syntactic, "
                       "by-name call graph, path provenance cache/data) incl. its tables MUTATORS, OS_READONLY, CACHE_ROOTS")
    ctx.trusted.append("vlib/x_c10.py instrumentation (api wrappers, audit hook, adversary scheduler) and the strace projection of checks/C10.py")
    ok = ctx.prove()
    # the storage-side table of tie T in words (the obligation itself is Proofs/C10StorageMut.v:Gen_storage_*_ok)
    try:
        from translate import t_storagemut
        data, other = t_storagemut.analyse(core.REPO)
        off = ["%s reaches %s" % r for r in data if r[0] not in WRITERS] + \
              ["%s reaches %s" % r for r in other if r[0] in ("GetMeta", "Tag", "LastModified")]
        ctx.extra["static_storage_mutations"] = dict(data_sites=len(data), other_sites=len(other), offending=off[:20])
        if off:
            ctx.notes.append("storage operations that are sufficient under the shared lock reach file system mutations outside "
                             "the cache area (translate/t_storagemut.py): " + "; ".join(off[:8]))
            ctx.log("static storage scan:", "; ".join(off[:8]))
    except Exception as e:      # the translator's failure is already an obligation (translate:StorageMut)
        ctx.extra["static_storage_mutations"] = "not available: %r" % (e,)
    with core.coq_lock():
        rc19, out19 = core.make(["Proofs/C19ParseFirst.vo"])
        hits = core.forbidden_scan(["Proofs/C19ParseFirst.v"])
    ctx.obligation("Proofs/C19ParseFirst.v:c19_parse_first", rc19 == 0 and not hits, (out19[-1200:] if rc19 else "") + "\n".join(hits))
    with core.coq_lock():
        rcm, outm = core.make(["Gen/Skeleton.vo"])
    model_ok = rcm == 0
    failing_methods = []
    if model_ok:
        _, out = ctx.coq_eval("c10_verdicts", HEADER + "Eval vm_compute in (map (fun p => (fst p, check_skel (snd p))) requests).\n"
                              "Eval vm_compute in (map (fun p => (fst p, check_parse_first (snd p))) xml_handlers).\n", timeout=120)
        parts = out.split(": list (string * bool)")
        v10 = re.findall(r'\(\s*"(\w+)",\s*(true|false)\s*\)', parts[0]) if parts else []
        v19 = re.findall(r'\(\s*"(\w+)",\s*(true|false)\s*\)', parts[1]) if len(parts) > 1 else []
        ctx.extra["skeleton_verdicts"] = dict(check_skel=dict(v10), check_parse_first=dict(v19))
        failing_methods = [m for m, v in v10 if v == "false"]
        if len(v10) != 12:
            ctx.obligation("model:skeleton verdicts evaluated", False, out[-800:])
        if failing_methods:
            ctx.log("skeleton check fails for:", failing_methods)
    else:
        ctx.obligation("model:Gen/Skeleton.vo builds", False, outm[-1500:])

    # ------------------------------------------------------------------ runs
    rng = ctx.rng
    import random as _random
    seeds = [rng.randrange(2 ** 31) for _ in range(4)]
    n = ctx.n
    setup = x_c10.setup_requests()
    plan = [
        ("fs", "multifilesystem", False, True, n(300, 9000), "owner_only"),
        ("fs_adv", "multifilesystem", True, True, n(200, 6000), "all"),
        ("nolock", "multifilesystem_nolock", False, True, n(150, 4000), "authenticated"),
        ("nolock_adv", "multifilesystem_nolock", True, False, n(200, 6000), "owner_only"),
        ("fs_all", "multifilesystem", False, True, n(150, 4000), "all"),
        ("fs_auth_adv", "multifilesystem", True, False, n(120, 3000), "authenticated"),
    ]
    seeds += [rng.randrange(2 ** 31) for _ in range(len(plan) - len(seeds))]
    runs = []
    for (name, stype, adv, straced, count, rights), seed in zip(plan, seeds):
        r2 = _random.Random(seed)
        reqs = [dict(x) for x in setup] + x_c10.first_login_block(name.replace("_", "")) + x_c10.gen_requests(r2, count)
        reqs += x_c10.hostile_block()
        # storage states that only a crash produces: a server process died inside a write request, time passed
        reqs += x_c10.debris_requests(_random.Random(seed ^ 0x5EED), n(3, 40), tag=name.replace("_", ""))
        if adv:
            # every read request kind at least once: appended deterministic block
            reqs += fixed_block()
        runs.append(Run(name, stype, adv, straced, reqs, rights=rights))
    # a hook that leaves a background job behind (like "git push &"): lock.py must have killed the hook's process
    # group before the exclusive lock is released, so nothing of it may touch the folder afterwards
    L = "u:"
    bg_reqs = [dict(method="MKCALENDAR", path="/u/bg/", login=L, kind="setup"),
               dict(method="PUT", path="/u/bg/b1.ics", login=L, data=x_c10.ev("b1", 4), kind="gen"),
               dict(method="_SLEEP", path="", seconds=0.8, kind="sleep"),
               dict(method="PROPPATCH", path="/u/bg/", login=L, data=x_c10.PROPPATCH_OK % 7, kind="gen"),
               dict(method="DELETE", path="/u/bg/b1.ics", login=L, kind="gen"),
               dict(method="GET", path="/u/bg/", login=L, kind="gen"),
               dict(method="_SLEEP", path="", seconds=0.9, kind="sleep")]
    runs.append(Run("hookbg", "multifilesystem", False, True, bg_reqs, watch_hook_group=True,
                    hook="touch @FOLDER@/hook-ran; (sleep 0.6; touch @FOLDER@/collection-root/.late-job) &"))
    # the debris stream: (write request of every shape) x (crash point) x (age of the leftovers), then read-only requests.
    # The oracle is the one of the other runs: the streams are evaluated in Coq and by the three monitors -- a reader
    # that "tidies up" what an interrupted writer left in a collection folder changes collection data under the shared lock.
    # (every scenario leaves new collections and leftovers behind, the listings grow: thorough = several fresh stores)
    dseed = rng.randrange(2 ** 31)
    for j in range(n(1, 6)):
        runs.append(Run("debris%d" % j if j else "debris", "multifilesystem", False, True,
                        [dict(x) for x in setup] + x_c10.debris_requests(_random.Random(dseed + j), n(48, 100), tag="d%d" % j),
                        rights="owner_only"))
    base = tempfile.mkdtemp(prefix="rv-c10-")
    try:
        ths = [threading.Thread(target=r.execute, args=(base, ctx.n(600, 2400))) for r in runs]
        for t in ths:
            t.start()
        for t in ths:
            t.join()
        evaluate(ctx, runs, base, model_ok, failing_methods)
    finally:
        shutil.rmtree(base, ignore_errors=True)


def fixed_block():
    """One request of every reading shape, so that every Release point is visited with the adversary present."""
    L = "u:"
    r = [dict(method="_WIPECACHE", path="/u/cal/", kind="wipe"), dict(method="_WIPECACHE", path="/u/ab/", kind="wipe")]
    for kind in ("multiget", "sync", "query", "freebusy", "ab-multiget", "ab-query", "expand-property", "none"):
        tgt = "/u/ab/" if kind.startswith("ab-") else "/u/cal/"
        hrefs = ["/u/ab/c1.vcf"] if kind.startswith("ab-") else ["/u/cal/e1.ics", "/u/cal/nope.ics", "/u/cal/"]
        import random as _r
        r.append(dict(method="REPORT", path=tgt, login=L, data=x_c10.report_body(kind, _r.Random(0), hrefs, ""), rkind=kind,
                      kind="fixed"))
    r.append(dict(method="REPORT", path="/u/cal/e1.ics", login=L, data=x_c10.report_body("freebusy", None), rkind="freebusy",
                  kind="fixed"))
    for p in ("/u/cal/e1.ics", "/u/cal", "/u/cal/", "/u/ab/c1.vcf", "/u/nope.ics"):
        r.append(dict(method="OPTIONS", path=p, login=L, kind="fixed"))
        r.append(dict(method="POST", path=p, login=L, data="x", kind="fixed"))
    for p in ("/u/cal/", "/u/cal/e1.ics", "/u/ab/", "/u/", "/u/plain/"):
        r.append(dict(method="GET", path=p, login=L, kind="fixed"))
        r.append(dict(method="PROPFIND", path=p, login=L, data=x_c10.propfind_body("allprop", None), headers={"HTTP_DEPTH": "1"},
                      kind="fixed"))
    return r


def evaluate(ctx, runs, base, model_ok, failing_methods):
    cases = []          # (method index, coq event list) -> expected (true,true,true)
    case_src = []
    first = {}          # monitor name -> first violation (what, replay)
    optable = {}
    for run in runs:
        if run.error:
            ctx.obligation("driver:%s ran" % run.name, False, run.error)
            continue
        ctx.obligation("driver:%s ran" % run.name, True)
        for i, (rq, res) in enumerate(zip(run.reqs, run.results)):
            if rq["method"].startswith("_"):
                ctx.count("pseudo:" + rq["method"])
                if rq["method"] == "_CRASH" and res.get("crash"):
                    died, odd = res["crash"]
                    ctx.count("crash:%s" % ("process died inside the write" if died else "write finished before the crash point"))
                    if odd:
                        ctx.count("crash:left temporary names in the collection tree")
                    ctx.count("crash-age:%ds" % rq.get("age", 0))
                    ctx.count("crash-victim:%s" % rq["request"]["method"])
                continue
            api = res["api"]
            locked = any(e[0] == "Acquire" for e in api)
            key = (run.stype, run.adversary, run.rights, rq["method"], res["status"], json.dumps(api))
            ctx.case(key, nontrivial=locked,
                     sample=dict(run=run.name, method=rq["method"], path=rq["path"], status=res["status"], api=api)
                     if rq.get("rkind") == "freebusy" or (i % 37 == 5) else None)
            ctx.count("run:%s" % run.name)
            ctx.count("rights:%s" % run.rights)
            ctx.count("method:%s" % rq["method"])
            ctx.count("status:%s" % res["status"])
            if rq.get("rkind"):
                ctx.count("report:%s" % rq["rkind"])
            if res.get("error"):
                ctx.count("driver-exception")
            v = mon_api(api)
            if v and "api" not in first:
                first["api"] = ("api level: %s" % v, replay_of(run, i, api=api))
            fv = mon_files(res["files"])
            if fv and "audit" not in first:
                off = [f for f in res["files"] if f["t"] == "main" and f["ev"] != "exec" and classify("/F" + f["path"], "/F") in ("data", "cache")
                       and (f["held"] is None or (f["write"] and f["held"] != "w" and classify("/F" + f["path"], "/F") == "data"))]
                muts = [f for f in off if f["write"]]
                text = fv[0] + ("; %d file events outside a sufficient lock in this request, %d of them mutations (first: %s %s)" % (
                    len(off), len(muts), muts[0]["ev"], muts[0]["path"]) if muts else "")
                if any(e[0] == "Hook" for e in api) and muts:
                    text += "; the hook had already run before these writes" if api_index(api, "Hook") < last_unlocked_write(api) else ""
                first["audit"] = ("audit level: %s" % text, replay_of(run, i, api=api, file_event=fv[1], offending_file_events=off[:12]))
            if rq["method"] in METHODS:
                cases.append(((METHODS.index(rq["method"]), x_c10.api_to_coq(api)), (True, True, True)))
                case_src.append((run, i))
        if run.straced:
            viol, ops, windows, checked = mon_syscalls(run, os.path.join(base, run.name))
            ctx.traces_validated += windows
            ctx.count("data-area-syscalls-checked:%s" % run.name, checked)
            ctx.extra.setdefault("lock_windows", {})[run.name] = windows
            for k, s in ops.items():
                optable.setdefault(k, set()).update(s)
            if viol and "syscall" not in first:
                rqi, text, raw = next((v for v in viol if "after the exclusive" in v[1]), viol[0])
                first["syscall"] = ("system-call level (%s): %s" % (run.name, text),
                                    replay_of(run, rqi, syscall=raw, api=run.results[rqi]["api"] if 0 <= rqi < len(run.results) else None))
            ctx.count("syscall-violations:%s" % run.name, len(viol))
    # ------------------------------------------------------------------ correspondence inside Coq
    if model_ok and cases:
        enc_in = lambda c: "(%d%%nat, %s)" % (c[0], c[1])       # noqa: E731
        enc_out = lambda o: "(%s, %s, %s)" % tuple(core.enc_bool(x) for x in o)      # noqa: E731
        bad = ctx.diff_cases("c10_corr", HEADER, "(fun c => corr (skel_of (fst c)) (snd c))", cases, enc_in, enc_out, "b3_eqb",
                             shard=150)
        if bad is not None:
            detail = ""
            if bad:
                run, i = case_src[bad[0]]
                verdict = ctx.coq_show(HEADER, "corr (skel_of %d%%nat) %s" % cases[bad[0]][0])
                detail = "first of %d: run %s request %d %s %s -> (discipline, path-of-skeleton, ops-in-skeleton) = %s ; stream %s" % (
                    len(bad), run.name, i, run.reqs[i]["method"], run.reqs[i]["path"], verdict[-60:], cases[bad[0]][0][1])
                ctx.extra["corr_disagreements"] = [dict(run=case_src[b][0].name, request=case_src[b][0].reqs[case_src[b][1]],
                                                        stream=cases[b][0][1]) for b in bad[:5]]
                if "api" not in first and "audit" not in first:
                    first.setdefault("corr", ("correspondence: an observed request stream is not accepted by the model: " + detail,
                                              replay_of(run, i, api=run.results[i]["api"])))
            ctx.obligation("correspondence:request-streams", not bad, detail)
        tab = sorted((k, max(v, key=["ARead", "ACache", "AWrite"].index)) for k, v in optable.items())
        ctx.extra["observed_op_access"] = dict(tab)
        if tab:
            bad2 = ctx.diff_cases("c10_ops", HEADER, "(fun c => acc_leb (snd c) (sop_access (fst c)))",
                                  [((k, a), True) for k, a in tab], lambda c: "(%s, %s)" % c, core.enc_bool, "Bool.eqb")
            if bad2 is not None:
                ctx.obligation("correspondence:storage-op-table", not bad2,
                               "" if not bad2 else "operation %s was observed with access %s, above the table sop_access" % tab[bad2[0]])
                if bad2:
                    first.setdefault("ops", ("storage operation %s was observed doing %s, more than Model.sop_access allows" % tab[bad2[0]],
                                             dict(operation=tab[bad2[0]][0], observed=tab[bad2[0]][1])))
    # ------------------------------------------------------------------ decide
    for name in ("audit", "syscall", "api", "corr", "ops"):
        if name in first:
            what, rp = first[name]
            ctx.violation("C10 %s" % what, shrink(rp, base) if name in ("audit", "api") else rp)
            break
    ctx.extra["monitors_fired"] = sorted(first)
    if failing_methods:
        ctx.notes.append("skeleton check (C10_handlers) fails for: %s" % ", ".join(failing_methods))


def api_index(api, kind):
    for j, e in enumerate(api):
        if e[0] == kind:
            return j
    return len(api)


def last_unlocked_write(api):
    """Index of the last writer operation called while no lock is held (-1 when none)."""
    held, last = None, -1
    for j, e in enumerate(api):
        if e[0] == "Acquire":
            held = e[1]
        elif e[0] == "Release":
            held = None
        elif e[0] == "Storage" and e[1] in WRITERS and held is None:
            last = j
    return last


def replay_of(run, i, **kw):
    """A self-contained replay: the request sequence up to and including request i of that run."""
    upto = run.reqs[:i + 1] if i >= 0 else run.reqs
    # keep the set-up and the failing request; drop the unrelated middle when the failing request does not depend on it
    return dict(storage_type=run.stype, adversary=run.adversary, conf=run.conf(), hook=run.hook, watch_hook_group=run.watch_hook_group, rights=run.rights, failing_request=run.reqs[i] if i >= 0 else None,
                requests=upto, note="./check C10 --replay <this file> re-runs the sequence through vlib/drivers/c10_driver.py "
                "and prints the monitors' verdict for the last request", **kw)


def shrink(rp, base):
    """Shorten the request sequence: set-up + failing request alone, else a bounded delta-debugging pass over the
    requests in between; a candidate is kept when the monitors still fire on the last request."""
    counter = [0]

    def fails(reqs):
        counter[0] += 1
        run = Run("shrink%d" % counter[0], rp["storage_type"], rp["adversary"], False, reqs, hook=rp.get("hook", "true"),
                  watch_hook_group=rp.get("watch_hook_group", False), rights=rp.get("rights", "owner_only"))
        run.execute(base, 300)
        if run.error:
            return None
        res = run.results[-1]
        if mon_api(res["api"]) or mon_files(res["files"]):
            return res
        return None
    try:
        allr = rp["requests"]
        setup = [r for r in allr[:-1] if r.get("kind") == "setup"]
        middle = [r for r in allr[:-1] if r.get("kind") != "setup"]
        failing = allr[-1]
        best, best_res = None, None
        res = fails(setup + [failing])
        crashes = [r for r in middle if r["method"] == "_CRASH"]
        if res:
            best, best_res = [], res
        elif crashes:
            # the storage state that matters is, most of the time, what one of the crashes before the request left
            # (possibly aged by a later one): all crashes without the reads in between, then single ones, latest first
            res = fails(setup + crashes + [failing])
            if res:
                middle, best, best_res = crashes, crashes, res
                for c in reversed(crashes[-6:]):
                    res = fails(setup + [c] + [failing])
                    if res:
                        middle, best, best_res = [c], [c], res
                        break
        if best is None or len(best) > 1:
            n = 2
            while len(middle) > 1 and counter[0] < 20:
                size = max(1, len(middle) // n)
                reduced = False
                for k in range(0, len(middle), size):
                    cand = middle[:k] + middle[k + size:]
                    res = fails(setup + cand + [failing])
                    if res:
                        middle, best, best_res, reduced = cand, cand, res, True
                        n = max(2, n - 1)
                        break
                    if counter[0] >= 20:
                        break
                if not reduced:
                    if size == 1:
                        break
                    n = min(len(middle), n * 2)
        if best is not None:
            fv = mon_files(best_res["files"])
            return dict(rp, requests=setup + best + [failing], api=best_res["api"], file_event=fv[1] if fv else None,
                        shrunk_from=len(allr))
    except Exception:
        pass
    return rp


def replay(ctx, path):
    data = json.load(open(path))
    rp = data.get("replay", data)
    if "requests" not in rp:
        print(json.dumps(data, indent=1)[:3000])
        return 0
    base = tempfile.mkdtemp(prefix="rv-c10-replay-")
    try:
        run = Run("replay", rp["storage_type"], rp["adversary"], False, rp["requests"], hook=rp.get("hook", "true"),
                  watch_hook_group=rp.get("watch_hook_group", False), rights=rp.get("rights", "owner_only"))
        run.execute(base, 600)
        if run.error:
            print(run.error)
            return 2
        last = max(i for i, r in enumerate(rp["requests"]) if not r["method"].startswith("_"))
        res = run.results[last]
        print("request:", json.dumps(rp["requests"][last])[:400])
        print("status:", res["status"])
        print("api stream:", res["api"])
        v, fv = mon_api(res["api"]), mon_files(res["files"])
        print("api monitor:", v)
        print("audit monitor:", fv)
        return 1 if (v or fv) else 0
    finally:
        shutil.rmtree(base, ignore_errors=True)
