"""C11 -- The storage lock is a correct readers-writer lock under every schedule.

1. proof: Props/C11.v -- inductive invariants of three transition systems (condition-variable lock, flock lock with
   any number of processes, keyed FIFO lock), any number of threads, any schedule.
2. correspondence (tie K): the REAL classes run under a scripted scheduler (vlib/x_C11.py: cooperative stand-ins
   for threading.Lock / fcntl.flock / open assigned into the modules' namespaces, CPython's own Condition code
   re-executed over them).  ALL interleavings of small thread sets are enumerated at the granularity of the
   blocking primitives, larger ones sampled; after every step the fields of the real objects (mutex owner,
   _readers, _writer, Condition._waiters, waiter-lock states, per-thread position, enabledness, value returned by
   `locked`, kernel flock table, LockDict._dict and its deques) are compared with the Coq model run on the same
   schedule (`run_case` evaluated by vm_compute).
3. monitors, directly on the real objects after every step of every schedule: mutual exclusion, bookkeeping and
   `locked`, no lost wake-up, no deadlock, no exception, per-key exclusion / FIFO / dict-entry hygiene; plus real
   threads on the real `threading` and real processes on the real `flock`.
4. deployments: the processes of the file-lock system are server INSTANCES -- real multifilesystem.Storage objects built
   by the real constructor from a generated matrix of configurations that share one filesystem_folder (kind "store");
   which file each instance flocks is compared with Model/C11LockIdent.v (lock_path: a function of the folder only).
"""
import concurrent.futures
import itertools
import json
import os
import random
import shutil
import subprocess
import sys
import tempfile
import threading
import time

from vlib import core
from vlib import x_C11 as X

HEADER_COND = """From Coq Require Import List ZArith Bool Uint63.
Import ListNotations.
Require Import RV.Model.C11Base RV.Model.RwLockCond.
Open Scope Z_scope.
"""
HEADER_FILE = """From Coq Require Import List ZArith Bool Uint63.
Import ListNotations.
Require Import RV.Model.C11Base RV.Model.RwLockCond RV.Model.RwLockFile.
Open Scope Z_scope.
"""
HEADER_CACHE = """From Coq Require Import List ZArith Bool Uint63.
Import ListNotations.
Require Import RV.Model.C11Base RV.Model.FlockInode.
Open Scope Z_scope.
"""
HEADER_DICT = """From Coq Require Import List ZArith Bool Uint63.
Import ListNotations.
Require Import RV.Model.C11Base RV.Model.RwLockCond RV.Model.LockDict.
Open Scope Z_scope.
"""
HEADER_IDENT = """From Coq Require Import List NArith Bool.
Import ListNotations.
Require Import RV.Lib.PyStr RV.Model.C11LockIdent.
"""


def enc_zl(l):
    return "[" + ";".join(str(x) for x in l) + "]"


def enc_natl(l):
    return "[" + ";".join("%d" % x for x in l) + "]%nat"


def enc_trace(tr):
    return "[" + ";".join(enc_zl(o) for o in tr) + "]"


def cyc(c):
    return 2 * c[1] + (1 if c[0] == "w" else 0)


def fcyc(c):      # file lock: 4*q + 2*(flock raises) + (1 if write)
    return 4 * c[1] + (2 if (len(c) > 2 and c[2] == 1) else 0) + (1 if c[0] == "w" else 0)


def enc_words(l):
    return "[" + ";".join("%d" % x for x in l) + "]%uint63"


def pack_trace(tr):
    """Same packing as C11Base.enc_trace: base-64 digits (value + 17, 63 = out of range, 0 closes an observation),
    ten digits per 63-bit word, first digit most significant, last word zero-padded."""
    d = []
    for o in tr:
        d += [(x + 17 if -16 <= x < 46 else 63) for x in o] + [0]
    ws = []
    for k in range(0, len(d), 10):
        ch = d[k:k + 10]
        ch += [0] * (10 - len(ch))
        w = 0
        for x in ch:
            w = w * 64 + x
        ws.append(w)
    return ws


def pack_sched(sch):
    """Same as C11Base.decode_sched: words of 20 base-8 digits, least significant digit first."""
    ws = []
    for k in range(0, len(sch), 20):
        w = 0
        for t in reversed(sch[k:k + 20]):
            w = w * 8 + t
        ws.append(w)
    return ws


def source_fileops():
    """os.* / shutil.* calls in the source of CollectionPartLock._acquire_cache_lock other than os.path.join
    (directories are made through self._storage._makedirs_synced; open/flock/close live in pathutils.RwLock)."""
    import ast
    src = open(os.path.join(core.REPO, "radicale/storage/multifilesystem/lock.py")).read()
    bad = []
    for node in ast.walk(ast.parse(src)):
        if isinstance(node, ast.FunctionDef) and node.name == "_acquire_cache_lock":
            for c in ast.walk(node):
                if isinstance(c, ast.Call):
                    f, parts = c.func, []
                    while isinstance(f, ast.Attribute):
                        parts.append(f.attr)
                        f = f.value
                    if isinstance(f, ast.Name):
                        parts.append(f.id)
                    name = ".".join(reversed(parts))
                    if (name.startswith("os.") or name.startswith("shutil.") or name.split(".")[-1] in (
                            "remove", "unlink", "rename", "replace", "rmtree", "rmdir", "truncate")) and name != "os.path.join":
                        bad.append(name)
    return bad


def source_one_application():
    """Tie T on the current source: exactly one Application (hence one Storage, one RwLock, one LockDict) per process.
    radicale/__init__.py: the only construction site is inside `if _application_instance is None:` which is itself
    inside `with _application_lock:`; radicale/server.py: serve() constructs Application once, outside every loop, and
    hands that object to all servers; neither file calls storage.load directly.  Returns a list of problems."""
    import ast
    problems = []

    def parents(tree):
        par = {}
        for n in ast.walk(tree):
            for c in ast.iter_child_nodes(n):
                par[c] = n
        return par

    def chain(n, par):
        out = []
        while n in par:
            n = par[n]
            out.append(n)
        return out

    def is_name(n, name):
        return isinstance(n, ast.Name) and n.id == name

    def is_none_test(n):
        return (isinstance(n, ast.Compare) and is_name(n.left, "_application_instance") and len(n.ops) == 1
                and isinstance(n.ops[0], ast.Is) and isinstance(n.comparators[0], ast.Constant) and n.comparators[0].value is None)

    def calls(tree, name):
        return [n for n in ast.walk(tree) if isinstance(n, ast.Call) and (
            is_name(n.func, name) or (isinstance(n.func, ast.Attribute) and n.func.attr == name))]

    # ---- radicale/__init__.py
    tree = ast.parse(open(os.path.join(core.REPO, "radicale/__init__.py")).read())
    par = parents(tree)
    sites = calls(tree, "Application")
    if len(sites) != 1:
        problems.append("radicale/__init__.py: %d construction sites of Application (expected 1)" % len(sites))
    for site in sites:
        ch = chain(site, par)
        fn = [a for a in ch if isinstance(a, ast.FunctionDef)]
        if not fn or fn[0].name != "_get_application_instance":
            problems.append("radicale/__init__.py: Application constructed outside _get_application_instance (line %d)" % site.lineno)
            continue
        ifs = [a for a in ch if isinstance(a, ast.If) and is_none_test(a.test)]
        if not ifs:
            problems.append("radicale/__init__.py:%d Application constructed without `if _application_instance is None`" % site.lineno)
            continue
        withs = [a for a in chain(ifs[0], par) if isinstance(a, ast.With) and any(
            is_name(it.context_expr, "_application_lock") for it in a.items)]
        if not withs:
            problems.append("radicale/__init__.py:%d the test `_application_instance is None` is not inside `with _application_lock`"
                            % ifs[0].lineno)
    for n in ast.walk(tree):
        if is_none_test(n):
            if not [a for a in chain(n, par) if isinstance(a, ast.With) and any(
                    is_name(it.context_expr, "_application_lock") for it in a.items)]:
                problems.append("radicale/__init__.py:%d `_application_instance is None` tested outside `with _application_lock`" % n.lineno)
    if calls(tree, "load") and any(isinstance(c.func, ast.Attribute) and is_name(c.func.value, "storage") for c in calls(tree, "load")):
        problems.append("radicale/__init__.py calls storage.load")
    # ---- radicale/server.py
    tree = ast.parse(open(os.path.join(core.REPO, "radicale/server.py")).read())
    par = parents(tree)
    sites = calls(tree, "Application")
    if len(sites) != 1:
        problems.append("radicale/server.py: %d construction sites of Application (expected 1)" % len(sites))
    for site in sites:
        ch = chain(site, par)
        fn = [a for a in ch if isinstance(a, (ast.FunctionDef, ast.Lambda))]
        if not fn or not isinstance(fn[0], ast.FunctionDef) or fn[0].name != "serve":
            problems.append("radicale/server.py:%d Application constructed outside serve()" % site.lineno)
        loops = [a for a in ch if isinstance(a, (ast.For, ast.While, ast.ListComp, ast.DictComp, ast.GeneratorExp, ast.SetComp))]
        if loops:
            problems.append("radicale/server.py:%d Application constructed inside a loop (one per listening socket)" % site.lineno)
    if any(isinstance(c.func, ast.Attribute) and is_name(c.func.value, "storage") for c in calls(tree, "load")):
        problems.append("radicale/server.py calls storage.load")
    return sorted(set(problems))


def run_app_driver(ctx, mode, nreq):
    base = tempfile.mkdtemp(prefix="rv-c11app-")
    try:
        drv = os.path.join(core.VERIF, "vlib", "drivers", "c11_app_driver.py")
        env = dict(os.environ, PYTHONPATH=core.REPO, VERIF_REPO=core.REPO)
        p = subprocess.run([core.PY, drv, mode, base, str(nreq)], stdout=subprocess.PIPE, stderr=subprocess.PIPE, env=env,
                           text=True, timeout=ctx.n(120, 300))
        lines = [l for l in p.stdout.splitlines() if l.startswith("{")]
        if not lines:
            return None, "driver failed: %s" % (p.stderr[-600:],)
        return json.loads(lines[-1]), None
    except subprocess.TimeoutExpired:
        return None, "driver timed out"
    finally:
        shutil.rmtree(base, ignore_errors=True)


def threads_of(progs):
    """The thread programs of a task: `progs` itself, or its second component in the ("tag", threads, ...) forms."""
    return progs[1] if (progs and isinstance(progs[0], str)) else progs


def enc_progs(kind, progs):
    if kind == "cond":
        return "[%s]" % ";".join(enc_zl([cyc(c) for c in p]) for p in progs)
    if kind == "file":
        return "[%s]" % ";".join("(%d%%nat, %s)" % (p, enc_zl([fcyc(c) for c in prog])) for p, prog in progs)
    if kind == "cache":      # cycle = key number, + 1000 when open() of the lock file fails for that acquisition
        return "[%s]" % ";".join(enc_natl([c if isinstance(c, int) else c[0] + 1000 * c[1] for c in p]) for p in progs)
    return "[%s]" % ";".join(enc_natl(p) for p in progs)


def enc_in(kind):
    return lambda pc: "(%s, (%d%%nat, %s))" % (enc_progs(kind, pc[0]), len(pc[1]), enc_words(pack_sched(pc[1])))


def enc_in_full(kind):
    return lambda pc: "(%s, %s)" % (enc_progs(kind, pc[0]), enc_natl(pc[1]))


FN = {"cond": "run_case_z", "file": "frun_case_z", "dict": "lrun_case_z", "cache": "crun_case_z"}
FN_FULL = {"cond": "run_case", "file": "frun_case", "dict": "lrun_case", "cache": "crun_case"}
HDR = {"cond": HEADER_COND, "file": HEADER_FILE, "dict": HEADER_DICT, "cache": HEADER_CACHE}


def locate_difference(ctx, kind, case):
    """Evaluate the model's full trace for one schedule and find the first step where it differs from the real one."""
    import re
    (progs, sched), trace = case
    out = ctx.coq_show(HDR[kind], "%s %s" % (FN_FULL[kind], enc_in_full(kind)((progs, sched))))
    m = re.search(r"=\s*(\[.*\])\s*:\s*list \(list Z\)", out, re.S)
    if not m:
        return dict(model_output=out[-600:])
    model = [[int(x) for x in re.findall(r"-?\d+", row)] for row in re.findall(r"\[([^\[\]]*)\]", m.group(1))]
    for i, (a, b) in enumerate(zip(model, trace)):
        if a != b:
            return dict(step=i, thread=sched[i - 1] if 0 < i <= len(sched) else None, model=a, implementation=b)
    return dict(step=min(len(model), len(trace)), model_len=len(model), implementation_len=len(trace))


# ------------------------------------------------------------------------------------------ program generators
def multisets(items, n):
    return [list(c) for c in itertools.combinations_with_replacement(items, n)]


def cond_thread_progs(ncycles, q=0):
    return [[(m, q) for m in ms] for ms in itertools.product("rw", repeat=ncycles)]


def work_list(ctx):
    """(task kind, lock kind, programs, parameter).  "enum": depth-first enumeration of ALL maximal schedules, up to
    `cap` runs; when the cap is hit, `extra` seeded random schedules are added.  "rand": seeded random schedules."""
    W = []
    # cap: schedules enumerated per program set (all of them monitored); keep: how many of them are also compared
    # with the Coq model (the first half of `keep`, then every 29th); extra: random schedules added when capped
    cap, keep, extra = ctx.n(500, 40000), ctx.n(500, 2500), ctx.n(100, 1500)
    E = lambda kind, progs: W.append(("enum", kind, progs, (cap, keep, extra, ctx.rng.randrange(10 ** 9))))  # noqa: E731
    # ---- condition-variable lock
    for progs in multisets(cond_thread_progs(2), 2):                     # all 2 threads x 2 cycles
        E("cond", progs)
    E("cond", [[("w", 1)], [("r", 1)]])                                  # with `locked` queries inside
    E("cond", [[("r", 1), ("w", 0)], [("r", 1)]])
    for progs in multisets(cond_thread_progs(1), 3):                     # all 3 threads x 1 cycle
        E("cond", progs)
    # ---- file lock: threads of one process / of different processes
    for procs in ([0, 0], [0, 1]):
        for progs in multisets(cond_thread_progs(1), 2):                 # all 2 threads x 1 cycle
            E("file", [(procs[i], p) for i, p in enumerate(progs)])
        for k, progs in enumerate(multisets(cond_thread_progs(2), 2)):   # all 2 threads x 2 cycles (capped in quick)
            if ctx.quick and procs == [0, 1] and k % 2:
                continue                                                 # quick: every other set for two processes
            E("file", [(procs[i], p) for i, p in enumerate(progs)])
    # acquisition FAILURES: flock raises OSError for the marked cycle (compared with the model), then a follow-up history
    for procs in ([0, 0], [0, 1]):
        E("file", [(procs[0], [("r", 0)]), (procs[1], [("w", 0, 1), ("w", 0)])])
        E("file", [(procs[0], [("w", 1)]), (procs[1], [("r", 0, 1), ("r", 1)])])
    E("file", [(0, [("r", 0), ("w", 0)]), (0, [("r", 0, 1)]), (0, [("w", 0, 1), ("r", 0)])])
    # the kernel grants an incompatible lock once (fault 2): the in-process "Guarantees failed" check must refuse and
    # the refusal must leave the bookkeeping alone (monitor only)
    for progs in ([(0, [("w", 1)]), (0, [("r", 0, 2), ("w", 0)])], [(0, [("r", 1)]), (0, [("w", 0, 2), ("r", 0)])],
                  [(0, [("r", 0), ("w", 0)]), (0, [("w", 0, 2)]), (0, [("r", 0, 2), ("w", 0)])]):
        E("file", progs)
    E("file", [(0, [("w", 1)]), (0, [("r", 1)])])
    E("file", [(0, [("r", 1), ("w", 0)]), (1, [("r", 1)])])
    for procs in ([[0, 0, 1]] if ctx.quick else [[0, 0, 0], [0, 0, 1], [0, 1, 2]]):
        for progs in multisets(cond_thread_progs(1), 3):                 # 3 threads x 1 cycle
            E("file", [(procs[i], p) for i, p in enumerate(progs)])
    # ---- keyed lock
    key_progs = [list(p) for p in itertools.product([5, 7], repeat=2)]
    for progs in multisets(key_progs, 2):                                # all 2 threads x 2 cycles over 2 keys
        E("dict", progs)
    for progs in ([[5], [5], [5]], [[5], [5], [7]], [[5], [7], [9]]):    # 3 threads x 1 cycle
        E("dict", progs)
    # ---- the keyed lock judged from outside (monitor only; each thread pauses inside its section): valid for any
    # implementation of LockDict, also one whose private layout the model correspondence cannot read
    for progs in ([[5], [5], [5]], [[5, 5], [5]], [[5], [5], [7]], [[5], [5], [5], [5]]):
        W.append(("enum", "dictbb", progs, (ctx.n(600, 20000), 0, ctx.n(150, 3000), ctx.rng.randrange(10 ** 9))))
    # ---- the composition the server uses: Storage.acquire_lock + Collection._acquire_cache_lock (monitor only)
    ccap = ctx.n(250, 20000)
    for progs in ([[("r", "/u/c/", "")], [("r", "/u/c/", "")]], [[("r", "/u/c/", "")], [("w", "/u/c/", "")]],
                  [[("w", "/u/c/", "")], [("w", "/u/c/", "")]], [[("r", "/u/c/", "")], [("r", "/u/d/", "")]],
                  [[("r", "/u/c/", "x")], [("r", "/u/c/", "")], [("r", "/u/c/", "x")]],
                  [[("r", "/u/c/", ""), ("w", "/u/c/", "")], [("r", "/u/c/", "")]]):
        W.append(("enum", "comp", progs, (ccap, 0, ctx.n(120, 3000), ctx.rng.randrange(10 ** 9))))
    # ---- the cache lock of the file-lock back-end: the real CollectionPartLock._acquire_cache_lock, kernel keyed by inode
    kcap = ctx.n(2000, 40000)
    for progs in ([[5], [5], [5]], [[5], [7]], [[5], [5]], [[5], [5], [7]], [[5, 5], [5]]):
        W.append(("enum", "cache", progs, (kcap if progs == [[5], [5], [5]] else cap, keep, extra, ctx.rng.randrange(10 ** 9))))
    # open() of the cache lock file fails for the marked acquisition (EMFILE): the requester must be refused
    for progs in ([[5], [[5, 1]]], [[5], [[5, 1], 5], [5]], [[5], [[7, 1], 5]]):
        W.append(("enum", "cache", progs, (cap, keep, extra, ctx.rng.randrange(10 ** 9))))
    W.append(("rand", "cache", ("r", [[5], [[5, 1], 5], [5]]), (ctx.n(100, 2000), ctx.rng.randrange(10 ** 9))))
    for progs in (("r", [[5], [5], [5]]), ("r", [[5], [5], [7]]), ("r", [[5], [9]])):       # storage lock held in mode r
        W.append(("rand", "cache", progs, (ctx.n(150, 3000), ctx.rng.randrange(10 ** 9))))
    # ---- the item-cache section of the file-lock back-end with stale entries: _clean_item_cache runs inside (monitor only)
    for progs in ([[1], [2]], [[1], [2], [3]], [[1, 2], [3]]):
        W.append(("enum", "sweep", progs, (ctx.n(250, 20000), 0, ctx.n(100, 2000), ctx.rng.randrange(10 ** 9))))
    # ---- larger configurations: seeded random schedules
    rng = ctx.rng
    big = []
    for _ in range(ctx.n(6, 30)):
        big.append(("cond", [[(rng.choice("rw"), rng.choice([0, 0, 1])) for _ in range(2)] for _ in range(3)]))
        big.append(("file", [(rng.choice([0, 0, 1]), [(rng.choice("rw"), rng.choice([0, 0, 1])) for _ in range(2)]) for _ in range(3)]))
        big.append(("dict", [[rng.choice([5, 5, 7]) for _ in range(2)] for _ in range(3)]))
    for _ in range(ctx.n(3, 15)):
        big.append(("cond", [[(rng.choice("rw"), 0)] for _ in range(4)]))
        big.append(("file", [(rng.choice([0, 1]), [(rng.choice("rw"), 0)]) for _ in range(4)]))
        big.append(("dict", [[rng.choice([5, 5, 7])] for _ in range(4)]))
    for kind, progs in big:
        W.append(("rand", kind, progs, (ctx.n(100, 1500), rng.randrange(10 ** 9))))
    if not ctx.quick:
        for progs in multisets(cond_thread_progs(1), 3):                 # 3 threads x 2 cycles, capped
            E("cond", [p + [("r", 0)] for p in progs])
            E("cond", [p + [("w", 0)] for p in progs])
        E("dict", [[5, 5], [5, 7], [7, 5]])
        E("dict", [[5, 5], [5, 5], [5, 5]])
    # ---- deployments: several real multifilesystem.Storage objects (= server instances / processes) serving ONE
    # filesystem_folder, each built by the real constructor from its own legal configuration (matrix: different / same /
    # no cache folder, cache-subfolder options, umask, spelling of the folder); the lock is entered through
    # Storage.acquire_lock; compared with RwLockFile.v (ONE kernel lock for all processes, see Model/C11LockIdent.v)
    scap, skeep, sextra = ctx.n(120, 400), ctx.n(50, 200), ctx.n(30, 100)
    deps = X.base_deployments() + [[X.random_conf(rng) for _ in range(2)] for _ in range(ctx.n(4, 16))]
    for k, dep in enumerate(deps):
        sets = [[(0, [("w", 1)]), (1, [("w", 0)])], [(0, [("r", 1)]), (1, [("w", 1)])]]
        if not ctx.quick or k % 4 == 0:
            sets.append([(0, [("r", 1)]), (1, [("r", 1), ("w", 0)])])
        for threads in sets:
            W.append(("enum", "store", ("deploy", threads, dep), (scap, skeep, sextra, rng.randrange(10 ** 9))))
    for _ in range(ctx.n(4, 16)):                                        # three / four instances, threads sharing instances
        n = rng.choice([3, 3, 4])
        dep = [X.random_conf(rng) for _ in range(n)]
        threads = [(rng.randrange(n), [(rng.choice("rw"), rng.choice([0, 1]))]) for _ in range(n)]
        W.append(("rand", "store", ("deploy", threads, dep), (ctx.n(60, 300), rng.randrange(10 ** 9))))
    return W


def run_task(task):
    """Executed in a worker process: returns (task, cases, violation, stats)."""
    tkind, kind, progs, param = task
    cases, violation = [], None
    seen = set()
    contended = 0
    steps = 0
    nthreads = len(threads_of(progs))
    exhausted = False
    fileops = set()

    monitored_only = 0

    def take(r, keep_it=True):
        nonlocal steps, contended, violation, monitored_only
        key = hash(tuple(r["schedule"]))
        if key in seen:
            return
        seen.add(key)
        fileops.update(r.get("fileops", []))
        steps += len(r["schedule"])
        cont = any(len(en) < nthreads for en in r["enabled"][:max(1, len(r["enabled"]) // 2)])
        contended += 1 if cont else 0
        if keep_it or r["violation"] is not None:
            cases.append((r["schedule"], r["trace"] if kind not in ("comp", "sweep", "dictbb") else [], cont))
        else:
            monitored_only += 1
        if r["violation"] is not None and violation is None:
            violation = dict(kind=kind, programs=progs, schedule=r["schedule"], what=r["violation"], trace_tail=r["trace"][-3:])

    if tkind == "enum":
        cap, keep, extra, seed = param
        if kind in ("comp", "sweep", "dictbb"):
            keep = 400          # nothing is sent to Coq for these; only keys for the coverage count
        n = 0
        for r in X.enumerate_schedules(kind, progs, limit=cap):
            take(r, cap <= keep or n < keep // 2 or (n % 29 == 0 and len(cases) < keep))
            n += 1
            if violation:
                break
        exhausted = n < cap and violation is None
        if not exhausted and violation is None:
            rng = random.Random(seed)
            for _ in range(extra):
                take(X.random_schedule(kind, progs, rng))
                if violation:
                    break
    else:
        n, seed = param
        rng = random.Random(seed)
        for _ in range(n):
            take(X.random_schedule(kind, progs, rng))
            if violation:
                break
    return task, cases, violation, dict(steps=steps, contended=contended, exhausted=exhausted, monitored_only=monitored_only,
                                        fileops=sorted(fileops))


# ------------------------------------------------------------------------------------------ real threads / processes
def stress_threads(ctx, n_threads, n_cycles, timeout=60):
    """The real classes on the REAL threading module, real preemption.  Returns a violation text or None."""
    from radicale.storage import multifilesystem_nolock as nolock
    old = sys.getswitchinterval()
    sys.setswitchinterval(1e-6)
    try:
        lock = nolock.RwLock()
        ld = nolock.LockDict()
        guard = threading.Lock()
        state = dict(r=0, w=0, keys={})
        bad = []

        def worker(i):
            rng = random.Random(ctx.seed * 7919 + i)
            try:
                for _ in range(n_cycles):
                    mode = "w" if rng.random() < 0.3 else "r"
                    with lock.acquire(mode):
                        with guard:
                            if (mode == "w" and (state["r"] or state["w"])) or (mode == "r" and state["w"]):
                                bad.append("overlap: %s enters with %r" % (mode, dict(r=state["r"], w=state["w"])))
                            state[mode] += 1
                        seen = lock.locked
                        if seen != mode:
                            bad.append("locked said %r to a holder in mode %r" % (seen, mode))
                        key = rng.choice(["a", "b", ("c", "ns")])
                        with ld.acquire(key):
                            with guard:
                                if state["keys"].get(key):
                                    bad.append("key %r held twice" % (key,))
                                state["keys"][key] = 1
                            with guard:
                                state["keys"][key] = 0
                        with guard:
                            state[mode] -= 1
            except Exception as e:   # noqa: B902
                bad.append("exception %r" % (e,))
        ths = [threading.Thread(target=worker, args=(i,), daemon=True) for i in range(n_threads)]
        t0 = time.time()
        for t in ths:
            t.start()
        for t in ths:
            t.join(max(0.1, timeout - (time.time() - t0)))
        if any(t.is_alive() for t in ths):
            return "threads did not finish within %ds (deadlock or lost wake-up on the real threading module)" % timeout
        if lock.locked != "" or ld._dict:
            bad.append("after all threads finished: locked=%r dict=%r" % (lock.locked, dict(ld._dict)))
        return bad[0] if bad else None
    finally:
        sys.setswitchinterval(old)


def stress_cache_lock(ctx, n_threads, n_cycles, timeout=90):
    """Real threads, real flock, separate open file descriptions: the real CollectionPartLock._acquire_cache_lock of a
    real multifilesystem.Storage, storage lock held in mode r, two keys.  Returns a violation text or None."""
    import logging
    from radicale import config
    from radicale.storage import multifilesystem
    logging.getLogger("radicale").setLevel(logging.CRITICAL)
    base = tempfile.mkdtemp(prefix="rv-c11cl-")
    old = sys.getswitchinterval()
    sys.setswitchinterval(1e-6)
    try:
        conf = config.load()
        conf.update({"storage": {"type": "multifilesystem", "filesystem_folder": base, "_filesystem_fsync": "False"}},
                    "c11", privileged=True)
        storage = multifilesystem.Storage(conf)
        guard = threading.Lock()
        inside = {}
        bad = []

        def worker(i):
            rng = random.Random(ctx.seed * 104729 + i)
            try:
                for _ in range(n_cycles):
                    path, ns = rng.choice([("/u/c/", ""), ("/u/c/", ""), ("/u/c/", "x")])
                    coll = multifilesystem.Collection(storage, path)
                    with storage.acquire_lock("r", "user"):
                        with coll._acquire_cache_lock(ns):
                            with guard:
                                if inside.get((path, ns)):
                                    bad.append("two threads inside the cache section of %r" % ((path, ns),))
                                inside[(path, ns)] = 1
                            if rng.random() < 0.5:
                                time.sleep(0.0002)
                            with guard:
                                inside[(path, ns)] = 0
            except Exception as e:   # noqa: B902
                bad.append("exception %r" % (e,))
        ths = [threading.Thread(target=worker, args=(i,), daemon=True) for i in range(n_threads)]
        t0 = time.time()
        for t in ths:
            t.start()
        for t in ths:
            t.join(max(0.1, timeout - (time.time() - t0)))
        if any(t.is_alive() for t in ths):
            return "cache-lock threads did not finish within %ds" % timeout
        return bad[0] if bad else None
    finally:
        sys.setswitchinterval(old)
        shutil.rmtree(base, ignore_errors=True)


def stress_sweep_real(ctx, rounds):
    """Real file system, real flock, real threads: readers call Collection._get on items without a cache entry while a
    stale cache entry is present, so _clean_item_cache runs inside the cache section; every os.remove/unlink/rename
    issued by the cache module is audited: a cache lock file is never taken away."""
    import logging
    import pickle
    from radicale import config
    from radicale.storage import multifilesystem
    from radicale.storage.multifilesystem import cache as cache_mod
    logging.getLogger("radicale").setLevel(logging.CRITICAL)
    base = tempfile.mkdtemp(prefix="rv-c11sw-")
    real_os = cache_mod.os
    taken = []

    class AuditOs:
        def __getattr__(self, name):
            return getattr(real_os, name)

        def remove(self, path, **k):
            if real_os.path.basename(str(path)).startswith(".Radicale.lock"):
                taken.append("remove(%s)" % real_os.path.basename(str(path)))
            return real_os.remove(path, **k)
        unlink = remove

        def rename(self, a, b, **k):
            if real_os.path.basename(str(a)).startswith(".Radicale.lock"):
                taken.append("rename(%s)" % real_os.path.basename(str(a)))
            return real_os.rename(a, b, **k)
        replace = rename
    cache_mod.os = AuditOs()
    try:
        conf = config.load()
        conf.update({"storage": {"type": "multifilesystem", "filesystem_folder": base, "_filesystem_fsync": "False"}},
                    "c11", privileged=True)
        storage = multifilesystem.Storage(conf)
        coll_dir = os.path.join(base, "collection-root", "u", "c")
        cache_dir = os.path.join(coll_dir, ".Radicale.cache", "item")
        os.makedirs(cache_dir)
        with open(os.path.join(coll_dir, ".Radicale.props"), "w") as f:
            f.write('{"tag": "VCALENDAR"}')
        bad = []
        for rnd in range(rounds):
            for n in range(3):
                with open(os.path.join(coll_dir, "i%d.ics" % n), "w", newline="") as f:
                    f.write(X.ITEM % ("i%d-%d" % (n, rnd)))          # changed behind the server's back
            with open(os.path.join(cache_dir, "gone.ics"), "wb") as f:
                pickle.dump(("0" * 64, "gone", "etag", "text", "gone.ics", "VEVENT", 0, 1), f)

            def reader(n):
                try:
                    with storage.acquire_lock("r", "user"):
                        item = multifilesystem.Collection(storage, "/u/c/")._get("i%d.ics" % n, verify_href=False)
                        if item is None or item.uid != "i%d-%d" % (n, rnd):
                            bad.append("item i%d not served" % n)
                except Exception as e:   # noqa: B902
                    bad.append("exception %r" % (e,))
            ths = [threading.Thread(target=reader, args=(n,), daemon=True) for n in range(3)]
            for t in ths:
                t.start()
            for t in ths:
                t.join(30)
            if any(t.is_alive() for t in ths):
                return "readers did not finish (round %d)" % rnd
            if taken:
                return "the sweep of stale item-cache entries took a cache lock file away: %s (round %d)" % (taken[0], rnd)
            if os.path.exists(os.path.join(cache_dir, "gone.ics")):
                bad.append("stale cache entry not swept: _clean_item_cache was not exercised")
            if bad:
                return bad[0]
        return None
    finally:
        cache_mod.os = real_os
        shutil.rmtree(base, ignore_errors=True)


def stress_processes(ctx, n_procs, n_cycles, n_threads=2, deployment=None):
    """Real processes on the real flock.  deployment=None: every process owns RwLock(<one lock file>); otherwise process
    i is a server instance: the real Storage built from configuration i (mod len) of the deployment, all over one
    filesystem_folder, the lock entered through Storage.acquire_lock."""
    base = tempfile.mkdtemp(prefix="rv-c11-")
    try:
        lockfile = os.path.join(base, ".Radicale.lock")
        first = [lockfile] * n_procs
        if deployment is not None:
            first = [json.dumps(X.storage_options(base, deployment[i % len(deployment)])) for i in range(n_procs)]
        statefile = os.path.join(base, "state")
        guardfile = os.path.join(base, "guard")
        with open(statefile, "w") as f:
            f.write("0 0")
        open(guardfile, "w").close()
        drv = os.path.join(core.VERIF, "vlib", "drivers", "c11_flock_driver.py")
        env = dict(os.environ, PYTHONPATH=core.REPO, VERIF_REPO=core.REPO)
        ps = [subprocess.Popen([core.PY, drv, first[i], statefile, guardfile, str(n_cycles), str(ctx.seed * 100 + i), str(n_threads)],
                               stdout=subprocess.PIPE, stderr=subprocess.PIPE, env=env, text=True) for i in range(n_procs)]
        out = []
        for p in ps:
            try:
                so, se = p.communicate(timeout=ctx.n(90, 400))
            except subprocess.TimeoutExpired:
                for q in ps:
                    q.kill()
                return "processes did not finish (deadlock on the real flock lock)", {}
            lines = [l for l in so.splitlines() if l.startswith("{")]
            if p.returncode != 0 or not lines:
                return "driver failed: %s" % (se[-500:],), {}
            out.append(json.loads(lines[-1]))
        tot = dict(cycles=sum(o["cycles"] for o in out), r=sum(o["r"] for o in out), w=sum(o["w"] for o in out))
        for o in out:
            if o["overlaps"]:
                return "multi-process overlap: " + o["overlaps"][0], tot
            if o["errors"]:
                return "multi-process error: " + o["errors"][0], tot
            if o["locked_mismatch"]:
                return "multi-process `locked` mismatch: " + o["locked_mismatch"][0], tot
            if o["final_locked"] != "":
                return "after the run `locked` is %r" % o["final_locked"], tot
        if open(statefile).read().strip() != "0 0":
            return "occupancy counter not back to zero: %r" % open(statefile).read(), tot
        return None, tot
    finally:
        shutil.rmtree(base, ignore_errors=True)


def lock_identity(ctx):
    """Tie K for Model/C11LockIdent.v: for every configuration of the deployment matrix the file that the REAL storage
    lock opens and flock()s (recorded at open/flock of a real acquisition on the real Storage) is compared with
    `lock_path` of the model evaluated on the options as the code reads them; and, directly: all instances of one
    deployment flock one file."""
    base = tempfile.mkdtemp(prefix="rv-c11id-")
    try:
        rng = random.Random(ctx.seed * 131 + 7)
        deps = X.base_deployments() + [[X.random_conf(rng) for _ in range(rng.choice([2, 3]))] for _ in range(ctx.n(15, 200))]
        rel = lambda path: path.replace(base, "/B")       # noqa: E731
        cases, seen = [], set()
        first_bad = None
        for dep in deps:
            files = []
            for c in dep:
                c = X.conf_norm(c)
                real, folder, cache = X.real_lock_path(base, c)
                files.append(os.path.realpath(real))
                key = json.dumps(c, sort_keys=True)
                if key not in seen:
                    seen.add(key)
                    cases.append(((rel(folder), rel(cache), [ch == "1" for ch in c["sub"]] + [bool(c["mtime"])], c["umask"]), rel(real)))
                    ctx.count("lock-identity:cache=%s" % ("yes" if c["cache"] else "no"))
            if len(set(files)) != 1 and first_bad is None:
                first_bad = (dep, files)
        ctx.count("lock-identity:deployments", len(deps))
        if first_bad is not None:
            dep, files = first_bad
            ctx.violation("C11 lock identity: instances serving one filesystem_folder flock different files: %s" % ", ".join(
                "%s -> %s" % (json.dumps(X.conf_norm(c), sort_keys=True), rel(f)) for c, f in zip(dep, files)),
                dict(kind="store", programs=["deploy", [[0, [["w", 1]]], [1, [["w", 0]]]], dep[:2] if len(set(files[:2])) > 1 else dep],
                     schedule=[0, 0, 0, 1], deployment=dep, lock_files=[rel(f) for f in files],
                     note="./check C11 --replay <this file> runs a writer of instance 0 and a writer of another instance on the "
                          "real Storage objects of this deployment"))

        def enc_in(i):
            f, c, fl, u = i
            return "(%s, %s, (%s, %s, %s, %s), %s)" % (core.enc_str(f), core.enc_str(c), core.enc_bool(fl[0]), core.enc_bool(fl[1]),
                                                       core.enc_bool(fl[2]), core.enc_bool(fl[3]), core.enc_str(u))
        bad = ctx.diff_cases("c11_ident", HEADER_IDENT, "lock_path_case", cases, enc_in, core.enc_str, "eqs", shard=100)
        if bad is not None:
            detail = ""
            if bad:
                i, o = cases[bad[0]]
                detail = ("the real storage lock flocks another file than Model/C11LockIdent.v (lock_path) on %d of %d configurations; "
                          "first: filesystem_folder=%r filesystem_cache_folder=%r -> real %r" % (len(bad), len(cases), i[0], i[1], o))
            ctx.obligation("correspondence:lock-identity", not bad, detail)
    finally:
        shutil.rmtree(base, ignore_errors=True)


# ------------------------------------------------------------------------------------------ the check
def run(ctx):
    ctx.rule = ("one case = one complete schedule (list of thread numbers, one entry per blocking primitive) of a fixed set of "
                "thread programs on one of the three real lock classes; exhaustive for 2 threads x 2 cycles and 3 threads x 1 "
                "cycle (all mode / process / key combinations up to symmetry), sampled for 3 x 2 and 4 x 1; distinct by "
                "(lock, programs, schedule); non-trivial = at least one thread was blocked during the first half of the run; "
                "kind store: the processes are real Storage objects of a deployment (systematic pairs of configurations sharing "
                "one filesystem_folder + seeded random configurations)")
    ctx.assumptions += [
        "kernel: flock grants LOCK_SH iff no LOCK_EX is held by another open file description, LOCK_EX iff none at all; "
        "locks of separate descriptors of one process conflict; close() drops the lock; flock does not fail with OSError",
        "CPython: threading.Lock is a binary lock whose acquire/release are atomic; the Condition code that runs in the "
        "correspondence is CPython's own Lib/threading.py source re-executed over the cooperative lock",
        "progress is claimed as stated in Props/C11.v (bounded own-step paths once not excluded, deadlock freedom, no lost "
        "wake-up); inevitability under fairness is NOT claimed: Lock is unfair and the lock prefers readers",
        "the win32 branch of pathutils.RwLock and timeouts/KeyboardInterrupt inside Condition.wait are not modelled",
    ]
    ctx.trusted.append("cooperative scheduler vlib/x_C11.py (stand-ins for threading.Lock, fcntl.flock, open; position/"
                       "observation encoding shared with the `observe` functions of the Coq models)")
    ctx.prove()

    # ---------------------------------------------------------------- enumerate / sample schedules on the real classes
    W = work_list(ctx)
    ctx.log("scheduling %d tasks" % len(W))
    per_kind = {"cond": [], "file": [], "dict": [], "dictbb": [], "comp": [], "cache": [], "sweep": []}
    cache_fileops = set()
    first_violation = None
    steps = 0
    with concurrent.futures.ProcessPoolExecutor(max_workers=16) as ex:
        for task, cases, violation, st in ex.map(run_task, W, chunksize=1):
            tkind, kind, progs, param = task
            steps += st["steps"]
            if kind in ("cache", "sweep"):
                cache_fileops.update(st["fileops"])
            if st["monitored_only"]:
                ctx.count("schedules-monitored-only:%s" % kind, st["monitored_only"])
                ctx.evaluations += st["monitored_only"]
            ctx.count("schedules:%s:%s" % (kind, tkind), len(cases))
            ctx.count("schedules:%s:threads=%d" % (kind, len(progs[1]) if isinstance(progs[0], str) else len(progs)), len(cases))
            if tkind == "enum":
                thrs = threads_of(progs)
                ctx.count("programs-%s:%s:%dx%d" % ("exhausted" if st["exhausted"] else "capped", kind, len(thrs),
                                                    max(len(p[1]) if kind in ("file", "store") else len(p) for p in thrs)))
            if kind == "store":
                ctx.count("deployments:%s" % json.dumps([X.conf_norm(c) for c in progs[2]], sort_keys=True))
            nthr = len(progs[1]) if isinstance(progs[0], str) else len(progs)
            for sched, trace, cont in cases:
                ctx.case((kind, repr(progs), tuple(sched)), nontrivial=cont,
                         sample=dict(lock=kind, programs=progs, schedule=sched) if len(ctx.samples) < 6 and cont and len(sched) > 12 else None)
                faulty = kind == "file" and any(len(c) > 2 and c[2] == 2 for _, prog in progs for c in prog)
                if kind == "store":        # same observation vector as "file": compared with RwLockFile.v
                    per_kind["file"].append(((progs[1], sched), trace))
                elif kind not in ("comp", "sweep", "dictbb") and not faulty and not (kind == "cache" and isinstance(progs[0], str)):
                    # (the composition and the storage-lock-held variant are monitored only)
                    per_kind[kind].append(((progs, sched), trace))
            if violation is not None and first_violation is None:
                first_violation = violation
    ctx.extra["scheduler_steps_on_real_classes"] = steps
    ctx.traces_validated = sum(len(v) for k, v in per_kind.items())
    # the cache lock of the file-lock back-end is exclusive only because the lock file is never taken away
    # (Props/C11.v: C11_cachelock_exclusive vs C11_cachelock_unlink_refuted): its file operations must stay
    # {makedirs, open, flock, close} -- observed on every schedule, and read off the source
    ctx.extra["cache_lock_fileops_observed"] = sorted(cache_fileops)
    ok_ops = cache_fileops == {"open", "flock", "close"}
    ctx.obligation("fileops:_acquire_cache_lock(observed)", ok_ops,
                   "" if ok_ops else "file operations on the lock file: %r, expected exactly open/flock/close" % sorted(cache_fileops))
    bad_calls = source_fileops()
    ctx.obligation("fileops:_acquire_cache_lock(source)", not bad_calls,
                   "" if not bad_calls else "CollectionPartLock._acquire_cache_lock calls %r" % (bad_calls,))
    ctx.log("ran %d schedules (%d steps) on the real classes, %d of them compared with the model" % (
        ctx.evaluations, steps, ctx.traces_validated))
    if first_violation is not None:
        v = first_violation
        ctx.violation("C11 %s lock: %s" % (v["kind"], v["what"]),
                      dict(kind=v["kind"], programs=v["programs"], schedule=v["schedule"], trace_tail=v["trace_tail"],
                           note="./check C11 --replay <this file> re-runs this schedule on the real class and prints the trace"))

    # ---------------------------------------------------------------- model vs implementation, state after every step
    for kind in ("cond", "file", "dict", "cache"):
        cases = per_kind[kind]
        if not cases:
            continue
        bad = ctx.diff_cases("c11_" + kind, HDR[kind], FN[kind], cases, enc_in(kind), lambda tr: enc_words(pack_trace(tr)),
                             "eqb_li", shard=300)
        if bad is None:
            continue
        ok = not bad
        detail = ""
        if bad:
            (progs, sched), trace = cases[bad[0]]
            detail = "model differs from the real class on %d of %d schedules; first: programs=%r schedule=%r" % (
                len(bad), len(cases), progs, sched)
            ctx.extra.setdefault("disagreements", {})[kind] = [dict(programs=cases[b][0][0], schedule=cases[b][0][1]) for b in bad[:5]]
            where = locate_difference(ctx, kind, cases[bad[0]])
            ctx.extra.setdefault("first_difference", {})[kind] = where
            detail += " ; first difference: %r" % (where,)
        ctx.obligation("correspondence:%s" % kind, ok, detail)

    # ---------------------------------------------------------------- which file is flocked (Model/C11LockIdent.v)
    lock_identity(ctx)

    # ---------------------------------------------------------------- one lock object per process (nolock back-end)
    probs = source_one_application()
    ctx.obligation("source:one-Application-per-process", not probs, "; ".join(probs))
    for mode in ("wsgi", "serve"):
        res, err = run_app_driver(ctx, mode, ctx.n(8, 40))
        if err:
            ctx.obligation("driver:one-application:%s" % mode, False, err)
            continue
        ctx.extra.setdefault("one_application", {})[mode] = res
        ctx.count("app-driver-requests:%s" % mode, sum(res["statuses"].values()))
        if res["distinct_locks"] != 1 or res["overlaps"] or res["errors"]:
            what = ("two first requests through radicale.application" if mode == "wsgi" else "radicale.server.serve() with two listening sockets")
            ctx.violation("C11 one lock per process (%s, multifilesystem_nolock): %d Application objects / %d storage lock objects "
                          "constructed, %d overlapping exclusive sections seen by the storage hook%s" % (
                              what, res["constructed"], res["distinct_locks"], res["overlaps"],
                              (", errors: %s" % res["errors"][:1]) if res["errors"] else ""),
                          dict(kind="one-application", mode=mode, requests=ctx.n(8, 40), result=res,
                               note="re-run: PYTHONPATH=$VERIF_REPO /venv/bin/python vlib/drivers/c11_app_driver.py %s <empty dir> %d" % (
                                   mode, ctx.n(8, 40))))

    # ---------------------------------------------------------------- real threads, real processes
    v = stress_threads(ctx, 8, ctx.n(150, 1500))
    ctx.count("real-thread-cycles", 8 * ctx.n(150, 1500))
    if v:
        ctx.violation("C11 real threads: " + v, dict(kind="real-threads", threads=8, cycles=ctx.n(150, 1500), seed=ctx.seed,
                                                      note="non-deterministic; re-run ./check C11"))
    v = stress_cache_lock(ctx, 6, ctx.n(150, 1500))
    ctx.count("real-cache-lock-cycles", 6 * ctx.n(150, 1500))
    if v:
        ctx.violation("C11 real flock, cache lock of the file-lock back-end: " + v,
                      dict(kind="real-cache-lock", threads=6, cycles=ctx.n(150, 1500), seed=ctx.seed,
                           note="non-deterministic; re-run ./check C11"))
    v = stress_sweep_real(ctx, ctx.n(10, 100))
    ctx.count("real-sweep-rounds", ctx.n(10, 100))
    if v:
        ctx.violation("C11 real flock, item-cache section with stale entries: " + v,
                      dict(kind="real-sweep", rounds=ctx.n(10, 100), seed=ctx.seed, note="re-run ./check C11"))
    v, tot = stress_processes(ctx, 8, ctx.n(100, 600))
    ctx.extra["multi_process"] = tot
    ctx.count("real-process-cycles", tot.get("cycles", 0))
    if v:
        ctx.violation("C11 real processes on flock: " + v, dict(kind="real-processes", processes=8, cycles=ctx.n(100, 600), seed=ctx.seed,
                                                                 note="non-deterministic; re-run ./check C11"))
    # the same with real server instances: every process builds its Storage from its own configuration of a deployment
    drng = random.Random(ctx.seed * 31 + 5)
    deps = X.base_deployments()
    deps = [deps[1]] + drng.sample(deps, ctx.n(1, 4)) + [[X.random_conf(drng) for _ in range(4)] for _ in range(ctx.n(1, 4))]
    for dep in deps:
        v, tot = stress_processes(ctx, max(4, len(dep)), ctx.n(50, 400), deployment=dep)
        ctx.count("real-deployment-cycles", tot.get("cycles", 0))
        if v:
            ctx.violation("C11 real processes, instances of one store %s: %s" % (json.dumps([X.conf_norm(c) for c in dep]), v),
                          dict(kind="real-deployment", deployment=dep, processes=max(4, len(dep)), cycles=ctx.n(50, 400), seed=ctx.seed,
                               note="non-deterministic; re-run ./check C11"))
            break


def replay(ctx, path):
    data = json.load(open(path))
    rp = data.get("replay", data)
    kind = rp.get("kind")
    if kind not in X.SYSTEMS:
        print(json.dumps(data, indent=1)[:3000])
        return 0
    progs = rp["programs"]
    if kind == "file":
        progs = [(p, [tuple(c) for c in prog]) for p, prog in progs]
    elif kind in ("cond", "comp"):
        progs = [[tuple(c) for c in prog] for prog in progs]
    elif kind == "cache" and progs and isinstance(progs[0], str):
        progs = (progs[0], progs[1])
    elif kind == "store":
        progs = (progs[0], [(p, [tuple(c) for c in prog]) for p, prog in progs[1]], progs[2])
    r = X.run_schedule(kind, progs, rp["schedule"], monitor=True, extend=False)
    for i, o in enumerate(r["trace"]):
        print("step %2d %s-> %s" % (i, ("thread %d " % r["schedule"][i - 1]) if 0 < i <= len(r["schedule"]) else "init     ", o))
    print("violation:", r["violation"])
    return 1 if r["violation"] else 0
