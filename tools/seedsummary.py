#!/usr/bin/env python3
"""Consolidate the results of tools/seedtest.py runs (/tmp/seedres/*.json, later runs override earlier ones per check)
into /verif/seeded/<name>/meta.json and print the markdown table used in DESIGN.md section 10."""
import glob
import json
import os
import re

VERIF = os.path.dirname(os.path.dirname(os.path.abspath(__file__)))
res = {}
for f in sorted(glob.glob("/tmp/seedres/*.json"), key=os.path.getmtime):
    try:
        d = json.load(open(f))
    except Exception:
        continue
    name = d.get("name")
    if not name:
        continue
    r = res.setdefault(name, dict(property=d.get("property"), checks={}, tests=None, demo=None))
    if d.get("tests"):
        r["tests"] = d["tests"]
    if "demo_with" in d:
        r["demo"] = (d.get("demo_without"), d.get("demo_with"))
    for c, v in d.get("checks", {}).items():
        what = (v.get("replay") or {}).get("what") if isinstance(v.get("replay"), dict) else None
        r["checks"][c] = dict(exit=v["exit"], violations=v["violations"], what=what)

rows = []
for name in sorted(res, key=lambda n: (re.sub(r"-s\d+$", "", n), n)):
    r = res[name]
    mp = os.path.join(VERIF, "seeded", name, "meta.json")
    meta = json.load(open(mp)) if os.path.exists(mp) else {}
    meta["breaks"] = r["property"]
    cc = meta.setdefault("confirmed_by_coordinator", {})
    if r["tests"]:
        cc["tests"] = r["tests"]
    if r["demo"]:
        cc["demo_without"], cc["demo_with"] = r["demo"]
    meta["checks"] = r["checks"]
    if os.path.isdir(os.path.dirname(mp)):
        json.dump(meta, open(mp, "w"), indent=1)
    caught = [c for c, v in r["checks"].items() if v["exit"] == 1 and v["violations"]]
    with_input = [c for c in caught if any("no-failing-input-found" not in x for x in r["checks"][c]["violations"])]
    how = ""
    if caught:
        c = (with_input or caught)[0]
        how = (r["checks"][c]["what"] or "").replace("\n", " ")[:110]
    rows.append("| %s | %s | %s | %s | %s |" % (name, (meta.get("summary") or "")[:120].replace("|", "/"),
                                          ", ".join(with_input) or ("(obligation only: %s)" % ", ".join(caught) if caught else "**missed**"),
                                          how.replace("|", "/"), ", ".join(sorted(r["checks"]))))
print("| seeded change | what was changed | caught by (with a concrete input) | reported as | checks run |")
print("|---|---|---|---|---|")
print("\n".join(rows))
