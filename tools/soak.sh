#!/bin/sh
# usage: tools/soak.sh "<checks>" <first seed> <last seed>   -- runs each check on each seed, prints failures with their replay
cd "$(dirname "$0")/.."
for s in $(seq $2 $3); do
  for p in $1; do
    out=$(./check $p --seed $s 2>&1)
    echo "$out" | grep -E "done:" | sed "s/^/seed=$s /"
    if echo "$out" | grep -q "^VIOLATION"; then
      echo "$out" | grep -E "^VIOLATION|disagreement" | cut -c1-400
      for f in replays/$p-*.json; do /venv/bin/python - "$f" <<'PY'
import json,sys
d=json.load(open(sys.argv[1])); print("  WHAT:", d.get("what","")[:500]); print("  REPLAY:", json.dumps(d.get("replay"))[:1500])
for o in d.get("broken_obligations",[])[:4]: print("  BROKEN:", o["name"], o.get("detail","")[:300].replace("\n"," "))
PY
      done
    fi
  done
done
