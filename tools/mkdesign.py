#!/usr/bin/env python3
"""Regenerate the generated tables of DESIGN.md section 10 (between the BEGIN/END markers):
findings-table from known_findings.json, checks-table from checks/meta/*.json + coq/Props/*.v,
seeds-table from seeded/*/meta.json."""
import glob
import json
import os
import re

VERIF = os.path.dirname(os.path.dirname(os.path.abspath(__file__)))


def cell(x, n=None):
    x = (x or "").replace("\n", " ").replace("|", "/")
    return x if n is None else x[:n]


def findings():
    d = json.load(open(os.path.join(VERIF, "known_findings.json")))
    rows = ["| property | status | commit | what failed |", "|---|---|---|---|"]
    for k in d.get("findings", []):
        rows.append("| %s | %s | `%s` | %s |" % (k.get("property"), k.get("status"), k.get("commit", "") or "", cell(k.get("what") or k.get("line"))))
    return "\n".join(rows)


def checks():
    rows = ["| id | theorems in Props | deciding method | assumed / not proved |", "|---|---|---|---|"]
    for f in sorted(glob.glob(os.path.join(VERIF, "checks", "meta", "C*.json"))):
        m = json.load(open(f))
        pid = os.path.basename(f)[:-5]
        try:
            n = len(re.findall(r"^Theorem ", open(os.path.join(VERIF, "coq", "Props", pid + ".v")).read(), re.M))
        except OSError:
            n = 0
        rows.append("| %s | %d | %s | %s |" % (pid, n, cell(m.get("technique")), cell(m.get("level_note"), 520)))
    return "\n".join(rows)


def seeds():
    rows = ["| seeded change | what was changed | caught by (concrete replay) | reported as |", "|---|---|---|---|"]
    def key(p):
        n = os.path.basename(os.path.dirname(p))
        return (n.split("-")[0], n)
    for f in sorted(glob.glob(os.path.join(VERIF, "seeded", "*", "meta.json")), key=key):
        m = json.load(open(f))
        name = os.path.basename(os.path.dirname(f))
        ch = m.get("checks") or {}
        caught = [c for c, v in ch.items() if v.get("exit") == 1 and v.get("violations")]
        with_input = [c for c in caught if any("no-failing-input-found" not in x for x in ch[c]["violations"])]
        how = ""
        if caught:
            how = cell(ch[(with_input or caught)[0]].get("what"), 150)
        rows.append("| %s | %s | %s | %s |" % (
            name, cell(m.get("summary"), 170),
            ", ".join(sorted(with_input)) or ("(obligation only: %s)" % ", ".join(sorted(caught)) if caught else "**missed**"), how))
    return "\n".join(rows)


def main():
    p = os.path.join(VERIF, "DESIGN.md")
    s = open(p).read()
    for tag, fn in (("findings-table", findings), ("checks-table", checks), ("seeds-table", seeds)):
        pat = re.compile(r"(<!-- BEGIN %s[^>]*-->\n).*?(<!-- END %s -->)" % (tag, tag), re.S)
        assert pat.search(s), tag
        s = pat.sub(lambda m: m.group(1) + fn() + "\n" + m.group(2), s)
    open(p, "w").write(s)


if __name__ == "__main__":
    main()
