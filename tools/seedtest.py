#!/usr/bin/env python3
"""Confirm a seeded breaking change and run the checks against it.

usage: tools/seedtest.py <PID> <dir with patch.diff demo.py meta.json> <name> [--checks C03,C01] [--keep]

1. fresh scratch worktree of /repo HEAD under /tmp; demo must pass (exit 0) there;
2. apply the patch; demo must fail; the existing test-suite must still pass (217);
3. run `./check <PID>` (and any --checks) with VERIF_REPO=<worktree>; record exit code / VIOLATION lines;
4. copy patch, demo and an augmented meta.json to /verif/seeded/<name>/; remove the worktree.
"""
import argparse
import json
import os
import re
import shutil
import subprocess
import sys
import time

VERIF = os.path.dirname(os.path.dirname(os.path.abspath(__file__)))


def sh(cmd, **kw):
    p = subprocess.run(cmd, shell=True, stdout=subprocess.PIPE, stderr=subprocess.STDOUT, text=True, errors="replace", **kw)
    return p.returncode, p.stdout


def main():
    ap = argparse.ArgumentParser()
    ap.add_argument("pid")
    ap.add_argument("src")
    ap.add_argument("name")
    ap.add_argument("--checks", default=None)
    ap.add_argument("--skip-tests", action="store_true")
    a = ap.parse_args()
    wt = "/tmp/st-%s" % a.name
    sh("git -C /repo worktree remove --force %s" % wt)
    rc, out = sh("git -C /repo worktree add -q %s HEAD" % wt)
    assert rc == 0, out
    res = dict(property=a.pid, name=a.name)
    try:
        demo = os.path.join(a.src, "demo.py")
        env = dict(os.environ, PYTHONPATH=wt, PYTHONHASHSEED="0")
        rc0, o0 = sh("/venv/bin/python %s" % demo, env=env, cwd=wt, timeout=600)
        res["demo_without"] = rc0
        rc, out = sh("git -C %s apply %s" % (wt, os.path.join(a.src, "patch.diff")))
        if rc != 0:
            # the repository moved on since the change was written: try a three-way application
            rc, out = sh("git -C %s apply --3way %s && git -C %s reset -q" % (wt, os.path.join(a.src, "patch.diff"), wt))
            res["applied"] = "3way"
        if rc != 0:
            res["error"] = "patch does not apply: " + out[-400:]
            print(json.dumps(res, indent=1))
            return 2
        rc1, o1 = sh("/venv/bin/python %s" % demo, env=env, cwd=wt, timeout=600)
        res["demo_with"] = rc1
        res["demo_output_with"] = o1[-600:]
        tests = None
        if not a.skip_tests:
            tests = subprocess.Popen("cd %s && /venv/bin/python -m pytest -q -p no:cacheprovider -x radicale/tests 2>&1 | tail -3" % wt,
                                     shell=True, stdout=subprocess.PIPE, text=True)
        checks = (a.checks or a.pid).split(",")
        res["checks"] = {}
        for c in checks:
            t0 = time.time()
            rcc, oc = sh("./check %s --tier quick" % c, cwd=VERIF, env=dict(os.environ, VERIF_REPO=wt), timeout=3600)
            viol = [l for l in oc.splitlines() if l.startswith("VIOLATION")]
            replay = None
            m = re.search(r"replay=(\S+)", viol[0]) if viol else None
            if m and os.path.exists(os.path.join(VERIF, m.group(1))):
                try:
                    d = json.load(open(os.path.join(VERIF, m.group(1))))
                    replay = dict(what=d.get("what"), broken=[o["name"] for o in d.get("broken_obligations", [])][:8])
                except Exception as e:  # noqa
                    replay = repr(e)
            res["checks"][c] = dict(exit=rcc, violations=viol, replay=replay, wall_s=round(time.time() - t0, 1),
                                    tail=oc.splitlines()[-3:])
        if tests is not None:
            res["tests"] = tests.communicate()[0].strip().splitlines()[-1:]
        confirmed = rc0 == 0 and rc1 != 0 and (a.skip_tests or any("passed" in t and "failed" not in t for t in res.get("tests", [])))
        res["confirmed"] = confirmed
        res["detected"] = any(v["exit"] == 1 and v["violations"] for v in res["checks"].values())
        res["detected_with_input"] = any(v["exit"] == 1 and any("no-failing-input-found" not in x for x in v["violations"])
                                         for v in res["checks"].values())
        if confirmed:
            dst = os.path.join(VERIF, "seeded", a.name)
            os.makedirs(dst, exist_ok=True)
            shutil.copy(os.path.join(a.src, "patch.diff"), dst)
            shutil.copy(demo, dst)
            meta = {}
            mp = os.path.join(a.src, "meta.json")
            if os.path.exists(mp):
                try:
                    meta = json.load(open(mp))
                except Exception:
                    meta = {}
            meta.update(dict(breaks=a.pid, confirmed_by_coordinator=dict(
                demo_without=rc0, demo_with=rc1, tests=res.get("tests"),
                ran="fresh worktree of /repo HEAD; demo; git apply patch.diff; demo; pytest radicale/tests; VERIF_REPO=<worktree> ./check <id> --tier quick"),
                checks={c: dict(exit=v["exit"], violations=v["violations"], what=(v["replay"] or {}).get("what") if isinstance(v["replay"], dict) else None)
                        for c, v in res["checks"].items()}))
            json.dump(meta, open(os.path.join(dst, "meta.json"), "w"), indent=1)
    finally:
        sh("git -C /repo worktree remove --force %s" % wt)
    print(json.dumps(res, indent=1))
    return 0


if __name__ == "__main__":
    sys.exit(main())
