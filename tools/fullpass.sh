#!/bin/sh
# Run every registered quick check once on /repo as it is; summary on stdout. usage: tools/fullpass.sh [seed]
cd "$(dirname "$0")/.."
seed=${1:-0}
for p in $(/venv/bin/python -c "import json;print(' '.join(c['property_id'] for c in json.load(open('MANIFEST.json'))['checks']))"); do
  out=$(./check $p --seed $seed 2>&1); rc=$?
  echo "$p rc=$rc $(echo "$out" | grep -E 'done:' | sed 's/.*done: //')"
  echo "$out" | grep -E "^VIOLATION|^KNOWN-FINDING" | cut -c1-200
done
