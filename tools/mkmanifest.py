#!/usr/bin/env python3
"""Assemble /verif/MANIFEST.json from checks/meta/Cxx.json (one file per property)."""
import glob
import json
import os

HERE = os.path.dirname(os.path.dirname(os.path.abspath(__file__)))
props = [json.loads(l)["id"] for l in open(os.path.join(HERE, "properties.jsonl")) if l.strip()]
checks, na = [], []
for pid in props:
    p = os.path.join(HERE, "checks", "meta", pid + ".json")
    if not os.path.exists(p):
        na.append(dict(property_id=pid, reason="no check built yet (work in progress; see DESIGN.md section 4 for the planned model and theorems)"))
        continue
    m = json.load(open(p))
    if m.get("not_applicable"):
        na.append(dict(property_id=pid, reason=m["not_applicable"]))
        continue
    checks.append(dict(
        property_id=pid,
        quick_cmd="./check %s --tier quick" % pid,
        thorough_cmd="./check %s --tier thorough" % pid,
        evidence_file="/verif/evidence/%s.json" % pid,
        replay_cmd_template="./check %s --replay {path}" % pid,
        engine="rocq",
        level_claimed=dict(category=m.get("category", "proof"), text=m["text"], design_ref=m.get("design_ref", "DESIGN.md section 4, " + pid)),
        level_note=m["level_note"],
        technique=m.get("technique", "machine-checked proof in Rocq (Coq 8.16.1) + model/code correspondence"),
    ))
manifest = dict(
    version=1,
    setup_cmd="./setup.sh",
    hooks=dict(guard="RADICALE_VERIF", enable="export RADICALE_VERIF=1 (no hook is compiled in: Radicale is pure Python; the checks import /repo's working tree directly)",
               baseline_off_cmd="cd /repo && env -u RADICALE_VERIF /venv/bin/python -m pytest -ra -q -p no:cacheprovider --timeout=900 --continue-on-collection-errors",
               source_commits=json.load(open(os.path.join(HERE, "checks", "meta", "_hooks.json")))["source_commits"],
               add_only=True),
    engines=[dict(name="rocq", path="/verif/coq", serves_properties=[c["property_id"] for c in checks],
                  kind_free_text="Coq 8.16.1 development (Lib/Gen/Model/Proofs/Props); Gen/ regenerated from /repo by translate/*.py on every run; "
                                 "hand models tied by differential correspondence (cases evaluated with vm_compute)")],
    checks=checks,
    not_applicable=na,
    notes="Every check: regenerate coq/Gen from /repo -> full .vo build of Props/<id>.v and its dependencies -> Print Assumptions -> "
          "correspondence (model vs implementation on generated cases) + property monitors on the implementation -> decision. "
          "See DESIGN.md section 2.3. Known findings: known_findings.json.",
)
json.dump(manifest, open(os.path.join(HERE, "MANIFEST.json"), "w"), indent=1)
print("checks:", [c["property_id"] for c in checks], "not_applicable:", len(na))
